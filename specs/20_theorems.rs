// Property-level theorems over the specification functions (DESIGN 2.3, 4): proofs, not assumptions.
// Together with the contracts "try_encrypt returns the spec token" and "try_decrypt accepts exactly when the spec
// acceptance condition holds and returns the spec plaintext", they give the end-to-end statements of C01/C02/C05/C06.
pub mod ptheorems {
use vstd::prelude::*;
use vstd::string::StringSliceAdditionalSpecFns;
use crate::cryptospec::*;
use crate::pspec::*;
use crate::glue::*;
use crate::base64::*;
verus!{
broadcast use {crate::cryptospec::group_crypto, crate::base64::group_b64, crate::pspec::group_pspec, crate::glue::lemma_utf8_inj};

// OBL: C01+C02+C05+C08.theorem.token_segments
/// segments of `header ++ b64(payload) [++ "." ++ b64(footer)]` for a header "vN.purpose."
pub proof fn lemma_token_segments(v: Seq<char>, p: Seq<char>, payload: Seq<u8>, f: Seq<u8>)
    requires !v.contains('.'), !p.contains('.'),
    ensures ({ let header = v + seq!['.'] + p + seq!['.']; let t = token_text(header, payload, f); let parts = split_spec(t, '.');
               &&& token_hdr(t) == header
               &&& parts[2] == b64(payload)
               &&& (f.len() == 0 ==> parts.len() == 3)
               &&& (f.len() != 0 ==> parts.len() == 4 && parts[3] == b64(f))
               &&& token_parts_ok(t, header, f) && token_payload(t) == payload })
{
    let header = v + seq!['.'] + p + seq!['.'];
    let t = token_text(header, payload, f);
    let bp = b64(payload);
    if f.len() == 0 {
        let r2 = bp; let r1 = p + seq!['.'] + r2;
        assert(t =~= v + seq!['.'] + r1);
        lemma_split_cons(v, '.', r1); lemma_split_cons(p, '.', r2); lemma_split_cons(bp, '.', Seq::<char>::empty());
        assert(split_spec(t, '.') =~= seq![v, p, bp]);
    } else {
        let bf = b64(f); let r3 = bf; let r2 = bp + seq!['.'] + r3; let r1 = p + seq!['.'] + r2;
        assert(t =~= v + seq!['.'] + r1);
        lemma_split_cons(v, '.', r1); lemma_split_cons(p, '.', r2); lemma_split_cons(bp, '.', r3); lemma_split_cons(bf, '.', Seq::<char>::empty());
        assert(split_spec(t, '.') =~= seq![v, p, bp, bf]);
    }
}
pub proof fn lemma_no_dot_v4_local()
    ensures !"v4"@.contains('.'), !"v3"@.contains('.'), !"v2"@.contains('.'), !"v1"@.contains('.'), !"local"@.contains('.'), !"public"@.contains('.'),
            "v4"@ + seq!['.'] + "local"@ + seq!['.'] == "v4.local."@, "v3"@ + seq!['.'] + "local"@ + seq!['.'] == "v3.local."@,
            "v2"@ + seq!['.'] + "local"@ + seq!['.'] == "v2.local."@, "v1"@ + seq!['.'] + "local"@ + seq!['.'] == "v1.local."@,
            "v4"@ + seq!['.'] + "public"@ + seq!['.'] == "v4.public."@, "v3"@ + seq!['.'] + "public"@ + seq!['.'] == "v3.public."@,
            "v2"@ + seq!['.'] + "public"@ + seq!['.'] == "v2.public."@, "v1"@ + seq!['.'] + "public"@ + seq!['.'] == "v1.public."@,
{
    reveal_strlit("v1"); reveal_strlit("v2"); reveal_strlit("v3"); reveal_strlit("v4"); reveal_strlit("local"); reveal_strlit("public");
    reveal_strlit("v1.local."); reveal_strlit("v2.local."); reveal_strlit("v3.local."); reveal_strlit("v4.local.");
    reveal_strlit("v1.public."); reveal_strlit("v2.public."); reveal_strlit("v3.public."); reveal_strlit("v4.public.");
    assert("v4"@ + seq!['.'] + "local"@ + seq!['.'] =~= "v4.local."@); assert("v3"@ + seq!['.'] + "local"@ + seq!['.'] =~= "v3.local."@);
    assert("v2"@ + seq!['.'] + "local"@ + seq!['.'] =~= "v2.local."@); assert("v1"@ + seq!['.'] + "local"@ + seq!['.'] =~= "v1.local."@);
    assert("v4"@ + seq!['.'] + "public"@ + seq!['.'] =~= "v4.public."@); assert("v3"@ + seq!['.'] + "public"@ + seq!['.'] =~= "v3.public."@);
    assert("v2"@ + seq!['.'] + "public"@ + seq!['.'] =~= "v2.public."@); assert("v1"@ + seq!['.'] + "public"@ + seq!['.'] =~= "v1.public."@);
}
// OBL: C01.theorem.v4l_roundtrip
/// the specification's v4.local token satisfies the specification's acceptance condition and decrypts to the message
pub proof fn theorem_v4l_roundtrip(k: Seq<u8>, n: Seq<u8>, m: Seq<u8>, f: Seq<u8>, i: Seq<u8>)
    requires n.len() == 32
    ensures v4l_accept_cond(v4l_token(k, n, m, f, i), k, f, i), v4l_plain(v4l_token(k, n, m, f, i), k) == m
{
    lemma_no_dot_v4_local();
    let p = v4l_payload(k, n, m, f, i);
    lemma_token_segments("v4"@, "local"@, p, f);
    let c = v4l_c(k, n, m);
    assert(p.subrange(0, 32) =~= n);
    assert(p.subrange(32, p.len() - 32) =~= c);
    assert(p.subrange(p.len() - 32, p.len() as int) =~= v4l_tag(k, n, c, f, i));
}
// OBL: C01.theorem.v3l_roundtrip
pub proof fn theorem_v3l_roundtrip(k: Seq<u8>, n: Seq<u8>, m: Seq<u8>, f: Seq<u8>, i: Seq<u8>)
    requires n.len() == 32
    ensures v3l_accept_cond(v3l_token(k, n, m, f, i), k, f, i), v3l_plain(v3l_token(k, n, m, f, i), k) == m
{
    lemma_no_dot_v4_local();
    let p = v3l_payload(k, n, m, f, i);
    lemma_token_segments("v3"@, "local"@, p, f);
    let c = v3l_c(k, n, m);
    assert(p.subrange(0, 32) =~= n);
    assert(p.subrange(32, p.len() - 48) =~= c);
    assert(p.subrange(p.len() - 48, p.len() as int) =~= v3l_tag(k, n, c, f, i));
}
// OBL: C01.theorem.v1l_roundtrip
pub proof fn theorem_v1l_roundtrip(k: Seq<u8>, rnd: Seq<u8>, m: Seq<u8>, f: Seq<u8>)
    ensures v1l_accept_cond(v1l_token(k, rnd, m, f), k, f), v1l_plain(v1l_token(k, rnd, m, f), k) == m
{
    lemma_no_dot_v4_local();
    let n = v1l_nonce(rnd, m);
    let p = v1l_payload(k, n, m, f);
    lemma_token_segments("v1"@, "local"@, p, f);
    let c = v1l_c(k, n, m);
    assert(p.subrange(0, 32) =~= n);
    assert(p.subrange(32, p.len() - 48) =~= c);
    assert(p.subrange(p.len() - 48, p.len() as int) =~= v1l_tag(k, n, c, f));
}
// OBL: C01.theorem.v2l_roundtrip
pub proof fn theorem_v2l_roundtrip(k: Seq<u8>, rnd: Seq<u8>, m: Seq<u8>, f: Seq<u8>)
    ensures v2l_accept_cond(v2l_token(k, rnd, m, f), k, f), v2l_plain(v2l_token(k, rnd, m, f), k, f) == m
{
    lemma_no_dot_v4_local();
    let n = v2l_nonce(rnd, m);
    let p = v2l_payload(k, n, m, f);
    lemma_token_segments("v2"@, "local"@, p, f);
    assert(p.subrange(0, 24) =~= n);
    assert(p.subrange(24, p.len() as int) =~= xchacha20poly1305_seal(k, n, v2l_pre(n, f), m));
}
// OBL: C02.theorem.v4p_roundtrip
pub proof fn theorem_v4p_roundtrip(kp: Seq<u8>, m: Seq<u8>, f: Seq<u8>, i: Seq<u8>)
    requires kp.len() == 64, ed25519_keypair_ok(kp)
    ensures v4p_accept_cond(v4p_token(kp, m, f, i), kp.subrange(32, 64), f, i), pub_msg(v4p_token(kp, m, f, i), 64) == m
{
    lemma_no_dot_v4_local();
    ax_ed25519_correct(kp, v4p_pre(m, f, i));
    let sig = ed25519_sign(kp, v4p_pre(m, f, i));
    lemma_token_segments("v4"@, "public"@, m + sig, f);
    assert((m + sig).subrange(0, (m + sig).len() - 64) =~= m);
    assert((m + sig).subrange((m + sig).len() - 64, (m + sig).len() as int) =~= sig);
}
// OBL: C02.theorem.v2p_roundtrip
pub proof fn theorem_v2p_roundtrip(kp: Seq<u8>, m: Seq<u8>, f: Seq<u8>)
    requires kp.len() == 64, ed25519_keypair_ok(kp)
    ensures v2p_accept_cond(v2p_token(kp, m, f), kp.subrange(32, 64), f), pub_msg(v2p_token(kp, m, f), 64) == m
{
    lemma_no_dot_v4_local();
    ax_ed25519_correct(kp, v2p_pre(m, f));
    let sig = ed25519_sign(kp, v2p_pre(m, f));
    lemma_token_segments("v2"@, "public"@, m + sig, f);
    assert((m + sig).subrange(0, (m + sig).len() - 64) =~= m);
    assert((m + sig).subrange((m + sig).len() - 64, (m + sig).len() as int) =~= sig);
}
// OBL: C02.theorem.v3p_roundtrip
pub proof fn theorem_v3p_roundtrip(t: Seq<char>, sk: Seq<u8>, m: Seq<u8>, f: Seq<u8>, i: Seq<u8>)
    requires p384_sk_ok(sk), v3p_signed(t, sk, m, f, i)
    ensures v3p_accept_cond(t, p384_pk_of_sk(sk), f, i), pub_msg(t, 96) == m
{
    lemma_no_dot_v4_local();
    let sig = choose|sig: Seq<u8>| #[trigger] p384_sign_rel(sk, v3p_pre(p384_pk_of_sk(sk), m, f, i), sig) && t == token_text("v3.public."@, m + sig, f);
    lemma_token_segments("v3"@, "public"@, m + sig, f);
    assert((m + sig).subrange(0, (m + sig).len() - 96) =~= m);
    assert((m + sig).subrange((m + sig).len() - 96, (m + sig).len() as int) =~= sig);
}
// OBL: C02.theorem.v1p_roundtrip
pub proof fn theorem_v1p_roundtrip(t: Seq<char>, pkcs8: Seq<u8>, m: Seq<u8>, f: Seq<u8>)
    requires rsa_pkcs8_ok(pkcs8), v1p_signed(t, pkcs8, m, f)
    ensures v1p_accept_cond(t, rsa_pk_of(pkcs8), f), pub_msg(t, 256) == m
{
    lemma_no_dot_v4_local();
    let sig = choose|sig: Seq<u8>| #[trigger] rsa_pss_sign_rel(pkcs8, v1p_pre(m, f), sig) && sig.len() == 256 && t == token_text("v1.public."@, m + sig, f);
    lemma_token_segments("v1"@, "public"@, m + sig, f);
    assert((m + sig).subrange(0, (m + sig).len() - 256) =~= m);
    assert((m + sig).subrange((m + sig).len() - 256, (m + sig).len() as int) =~= sig);
}
pub open spec fn small(ps: Seq<Seq<u8>>) -> bool { ps.len() < 0x1_0000_0000_0000_0000 && forall|i: int| 0 <= i < ps.len() ==> (#[trigger] ps[i]).len() < 0x1_0000_0000_0000_0000 }

// OBL: C08.theorem.le64_injective
pub proof fn lemma_le64_injective(a: u64, b: u64) requires le64(a) == le64(b) ensures a == b {
    assert(forall|i: int| 0 <= i < 8 ==> le64(a)[i] == le64(b)[i]);
    let f = |i: int| ((a >> ((8 * i) as u64)) & 0xff) as u8;
    assert(le64(a)[0] == (a & 0xff) as u8 && le64(b)[0] == (b & 0xff) as u8) by { assert(a >> 0 == a && b >> 0 == b) by (bit_vector); }
    assert(le64(a)[1] == ((a >> 8) & 0xff) as u8 && le64(b)[1] == ((b >> 8) & 0xff) as u8);
    assert(le64(a)[2] == ((a >> 16) & 0xff) as u8 && le64(b)[2] == ((b >> 16) & 0xff) as u8);
    assert(le64(a)[3] == ((a >> 24) & 0xff) as u8 && le64(b)[3] == ((b >> 24) & 0xff) as u8);
    assert(le64(a)[4] == ((a >> 32) & 0xff) as u8 && le64(b)[4] == ((b >> 32) & 0xff) as u8);
    assert(le64(a)[5] == ((a >> 40) & 0xff) as u8 && le64(b)[5] == ((b >> 40) & 0xff) as u8);
    assert(le64(a)[6] == ((a >> 48) & 0xff) as u8 && le64(b)[6] == ((b >> 48) & 0xff) as u8);
    assert(le64(a)[7] == ((a >> 56) & 0xff) as u8 && le64(b)[7] == ((b >> 56) & 0xff) as u8);
    assert(a == b) by (bit_vector)
        requires (a & 0xff) as u8 == (b & 0xff) as u8, ((a >> 8) & 0xff) as u8 == ((b >> 8) & 0xff) as u8, ((a >> 16) & 0xff) as u8 == ((b >> 16) & 0xff) as u8,
                 ((a >> 24) & 0xff) as u8 == ((b >> 24) & 0xff) as u8, ((a >> 32) & 0xff) as u8 == ((b >> 32) & 0xff) as u8, ((a >> 40) & 0xff) as u8 == ((b >> 40) & 0xff) as u8,
                 ((a >> 48) & 0xff) as u8 == ((b >> 48) & 0xff) as u8, ((a >> 56) & 0xff) as u8 == ((b >> 56) & 0xff) as u8;
}
// suffix decoding: pae_body(a) ends with le64(|last|) ++ last
pub proof fn lemma_pae_body_injective(a: Seq<Seq<u8>>, b: Seq<Seq<u8>>)
    requires a.len() == b.len(), small(a), small(b), pae_body(a) == pae_body(b)
    ensures a == b
    decreases a.len()
{
    if a.len() == 0 { assert(a =~= b); return; }
    // decode from the FRONT is awkward with this definition; decode the total length instead: use a length-indexed argument
    lemma_front(a); lemma_front(b);
    let x = a[0]; let y = b[0];
    let ra = a.skip(1); let rb = b.skip(1);
    let sa = le64(x.len() as u64) + x + pae_body(ra); let sb = le64(y.len() as u64) + y + pae_body(rb);
    assert(sa == sb);
    assert(sa.subrange(0, 8) =~= le64(x.len() as u64)); assert(sb.subrange(0, 8) =~= le64(y.len() as u64));
    lemma_le64_injective(x.len() as u64, y.len() as u64);
    assert(x.len() == y.len());
    assert(sa.subrange(8, 8 + x.len() as int) =~= x); assert(sb.subrange(8, 8 + y.len() as int) =~= y);
    assert(x == y);
    assert(sa.subrange(8 + x.len() as int, sa.len() as int) =~= pae_body(ra)); assert(sb.subrange(8 + y.len() as int, sb.len() as int) =~= pae_body(rb));
    assert(small(ra)) by { assert forall|i: int| 0 <= i < ra.len() implies (#[trigger] ra[i]).len() < 0x1_0000_0000_0000_0000 by { assert(ra[i] == a[i + 1]); } }
    assert(small(rb)) by { assert forall|i: int| 0 <= i < rb.len() implies (#[trigger] rb[i]).len() < 0x1_0000_0000_0000_0000 by { assert(rb[i] == b[i + 1]); } }
    lemma_pae_body_injective(ra, rb);
    assert(a =~= seq![x] + ra); assert(b =~= seq![y] + rb);
}
pub proof fn lemma_front(a: Seq<Seq<u8>>)
    requires a.len() > 0
    ensures pae_body(a) == le64(a[0].len() as u64) + a[0] + pae_body(a.skip(1))
    decreases a.len()
{
    if a.len() == 1 {
        assert(a.drop_last() =~= Seq::<Seq<u8>>::empty()); assert(a.skip(1) =~= Seq::<Seq<u8>>::empty());
        assert(pae_body(a.drop_last()) =~= Seq::<u8>::empty());
        assert(pae_body(a) =~= le64(a[0].len() as u64) + a[0] + pae_body(a.skip(1)));
    } else {
        let d = a.drop_last();
        lemma_front(d);
        assert(d[0] == a[0]);
        assert(d.skip(1) =~= a.skip(1).drop_last());
        assert(a.skip(1).last() == a.last());
        assert(pae_body(a) =~= le64(a[0].len() as u64) + a[0] + pae_body(a.skip(1)));
    }
}
// OBL: C03+C05+C06+C07.theorem.pae_injective
/// PAE is injective on piece lists (lengths below 2^64): distinct (header, nonce, ciphertext, footer, assertion) tuples give distinct MAC/signature inputs
pub proof fn lemma_pae_injective(a: Seq<Seq<u8>>, b: Seq<Seq<u8>>)
    requires small(a), small(b), pae(a) == pae(b)
    ensures a == b
{
    assert(pae(a).subrange(0, 8) =~= le64(a.len() as u64)); assert(pae(b).subrange(0, 8) =~= le64(b.len() as u64));
    lemma_le64_injective(a.len() as u64, b.len() as u64);
    assert(pae(a).subrange(8, pae(a).len() as int) =~= pae_body(a)); assert(pae(b).subrange(8, pae(b).len() as int) =~= pae_body(b));
    lemma_pae_body_injective(a, b);
}

pub open spec fn sm(x: Seq<u8>) -> bool { x.len() < 0x1_0000_0000_0000_0000 }
// OBL: C05+C06.theorem.v4l_pre_binds_fields
/// equal v4.local pre-authentication encodings have equal nonce, ciphertext, footer and implicit assertion (no boundary shifting)
pub proof fn theorem_v4l_pre_binds(n: Seq<u8>, c: Seq<u8>, f: Seq<u8>, i: Seq<u8>, n2: Seq<u8>, c2: Seq<u8>, f2: Seq<u8>, i2: Seq<u8>)
    requires sm(n), sm(c), sm(f), sm(i), sm(n2), sm(c2), sm(f2), sm(i2), v4l_pre(n, c, f, i) == v4l_pre(n2, c2, f2, i2)
    ensures n == n2, c == c2, f == f2, i == i2
{
    reveal_strlit("v4.local.");
    let a = seq![v4l_header(), n, c, f, i]; let b = seq![v4l_header(), n2, c2, f2, i2];
    assert(sm(v4l_header())) by { assert("v4.local.".is_ascii()); assert("v4.local."@.len() == 9); }
    lemma_pae_injective(a, b);
    assert(a[1] == b[1] && a[2] == b[2] && a[3] == b[3] && a[4] == b[4]);
}
// OBL: C07.theorem.headers_separate_protocols
/// encodings under different protocol headers never coincide: a relabelled token needs a tag/signature over a different PAE
pub proof fn theorem_v4l_v3l_pre_differ(n: Seq<u8>, c: Seq<u8>, f: Seq<u8>, i: Seq<u8>, n2: Seq<u8>, c2: Seq<u8>, f2: Seq<u8>, i2: Seq<u8>)
    requires sm(n), sm(c), sm(f), sm(i), sm(n2), sm(c2), sm(f2), sm(i2)
    ensures v4l_pre(n, c, f, i) != v3l_pre(n2, c2, f2, i2)
{
    reveal_strlit("v4.local."); reveal_strlit("v3.local.");
    let a = seq![v4l_header(), n, c, f, i]; let b = seq![v3l_header(), n2, c2, f2, i2];
    assert("v4.local.".is_ascii() && "v3.local.".is_ascii()); assert("v4.local."@.len() == 9 && "v3.local."@.len() == 9);
    assert(v4l_header()[1] != v3l_header()[1]) by { assert("v4.local."@[1] == '4' && "v3.local."@[1] == '3'); }
    if v4l_pre(n, c, f, i) == v3l_pre(n2, c2, f2, i2) { lemma_pae_injective(a, b); assert(a[0] == b[0]); }
}
}
}
