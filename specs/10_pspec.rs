// Byte-level transcription of the PASETO specification (Common.md PAE, Version1-4.md) over the
// uninterpreted primitives of `cryptospec` (DESIGN §2.1).  Definitions, not assumptions.
pub mod pspec {
use vstd::prelude::*;
use vstd::string::StringSliceAdditionalSpecFns;
use crate::cryptospec::*;
use crate::base64::b64;
use crate::glue::split_spec;
verus!{
pub open spec fn le64(n: u64) -> Seq<u8> {
    Seq::new(8, |i: int| ((n >> ((8 * i) as u64)) & 0xff) as u8)
}
pub open spec fn pae_body(pieces: Seq<Seq<u8>>) -> Seq<u8>
    decreases pieces.len()
{
    if pieces.len() == 0 { Seq::empty() }
    else { pae_body(pieces.drop_last()) + le64(pieces.last().len() as u64) + pieces.last() }
}
pub open spec fn pae(pieces: Seq<Seq<u8>>) -> Seq<u8> {
    le64(pieces.len() as u64) + pae_body(pieces)
}
pub broadcast proof fn lemma_le64_len(n: u64) ensures (#[trigger] le64(n)).len() == 8 {}
pub broadcast proof fn lemma_views3(ps: Seq<&[u8]>)
    requires ps.len() == 3
    ensures #[trigger] views(ps) == seq![ps[0]@, ps[1]@, ps[2]@]
{ assert(views(ps) =~= seq![ps[0]@, ps[1]@, ps[2]@]); }
pub broadcast proof fn lemma_views4(ps: Seq<&[u8]>)
    requires ps.len() == 4
    ensures #[trigger] views(ps) == seq![ps[0]@, ps[1]@, ps[2]@, ps[3]@]
{ assert(views(ps) =~= seq![ps[0]@, ps[1]@, ps[2]@, ps[3]@]); }
pub broadcast proof fn lemma_views5(ps: Seq<&[u8]>)
    requires ps.len() == 5
    ensures #[trigger] views(ps) == seq![ps[0]@, ps[1]@, ps[2]@, ps[3]@, ps[4]@]
{ assert(views(ps) =~= seq![ps[0]@, ps[1]@, ps[2]@, ps[3]@, ps[4]@]); }
pub broadcast group group_pspec { lemma_le64_len, lemma_views3, lemma_views4, lemma_views5 }
pub proof fn lemma_shift(x: u64, i: u64)
    requires i < 8
    ensures (x >> (8 * i) as u64) & 255 <= 255,
            i < 7 ==> (x >> ((8 * i) as u64)) >> 8 == x >> ((8 * (i + 1)) as u64),
            x >> 0 == x,
{
    assert((x >> (8 * i) as u64) & 255 <= 255) by (bit_vector);
    assert(x >> 0 == x) by (bit_vector);
    if i < 7 {
        assert((x >> ((8 * i) as u64)) >> 8 == x >> ((8 * (i + 1)) as u64)) by (bit_vector) requires i < 7;
    }
}
pub proof fn lemma_pae_body_step(ps: Seq<Seq<u8>>, k: int)
    requires 0 <= k < ps.len()
    ensures pae_body(ps.take(k + 1)) == pae_body(ps.take(k)) + le64(ps[k].len() as u64) + ps[k]
{
    assert(ps.take(k + 1).drop_last() =~= ps.take(k));
    assert(ps.take(k + 1).last() == ps[k]);
}
pub open spec fn views(pieces: Seq<&[u8]>) -> Seq<Seq<u8>> {
    pieces.map_values(|p: &[u8]| p@)
}
// token text: header ++ b64(payload) [++ "." ++ b64(footer)]   (footer segment iff footer non-empty)
pub open spec fn token_text(header: Seq<char>, payload: Seq<u8>, footer: Seq<u8>) -> Seq<char> {
    if footer.len() == 0 { header + b64(payload) } else { header + b64(payload) + seq!['.'] + b64(footer) }
}
// text-level structure shared by all eight protocols ("segments" = split on '.')
pub open spec fn utf8(s: Seq<char>) -> Seq<u8> { vstd::utf8::encode_utf8(s) }
pub open spec fn token_hdr(token: Seq<char>) -> Seq<char> {
    split_spec(token, '.')[0] + seq!['.'] + split_spec(token, '.')[1] + seq!['.']
}
pub open spec fn token_parts_ok(token: Seq<char>, header: Seq<char>, f: Seq<u8>) -> bool {
    let parts = split_spec(token, '.');
    &&& ((parts.len() == 3 && f.len() == 0) || (parts.len() == 4 && utf8(parts[3]) == utf8(b64(f))))
    &&& token_hdr(token) == header
    &&& crate::base64::b64_decode(utf8(parts[2])) is Some
}
pub open spec fn token_payload(token: Seq<char>) -> Seq<u8> {
    crate::base64::b64_decode(utf8(split_spec(token, '.')[2]))->Some_0
}
// format_token: header ++ payload-text [++ "." ++ b64(footer)]
pub open spec fn token_join(header: Seq<char>, payload_text: Seq<char>, footer: Seq<u8>) -> Seq<char> {
    if footer.len() == 0 { header + payload_text } else { header + payload_text + seq!['.'] + b64(footer) }
}
pub open spec fn sep_ek() -> Seq<u8> { "paseto-encryption-key".spec_bytes() }
pub open spec fn sep_ak() -> Seq<u8> { "paseto-auth-key-for-aead".spec_bytes() }

// ---- v4.local ----------------------------------------------------------------------------------
pub open spec fn v4l_header() -> Seq<u8> { "v4.local.".spec_bytes() }
pub open spec fn v4l_tmp(k: Seq<u8>, n: Seq<u8>) -> Seq<u8> { blake2b_mac(k, 56, sep_ek() + n) }
pub open spec fn v4l_ek(k: Seq<u8>, n: Seq<u8>) -> Seq<u8> { v4l_tmp(k, n).subrange(0, 32) }
pub open spec fn v4l_n2(k: Seq<u8>, n: Seq<u8>) -> Seq<u8> { v4l_tmp(k, n).subrange(32, 56) }
pub open spec fn v4l_ak(k: Seq<u8>, n: Seq<u8>) -> Seq<u8> { blake2b_mac(k, 32, sep_ak() + n) }
pub open spec fn v4l_c(k: Seq<u8>, n: Seq<u8>, m: Seq<u8>) -> Seq<u8> { xchacha20_xor(v4l_ek(k, n), v4l_n2(k, n), m) }
pub open spec fn v4l_pre(n: Seq<u8>, c: Seq<u8>, f: Seq<u8>, i: Seq<u8>) -> Seq<u8> { pae(seq![v4l_header(), n, c, f, i]) }
pub open spec fn v4l_tag(k: Seq<u8>, n: Seq<u8>, c: Seq<u8>, f: Seq<u8>, i: Seq<u8>) -> Seq<u8> {
    blake2b_mac(v4l_ak(k, n), 32, v4l_pre(n, c, f, i))
}
pub open spec fn v4l_payload(k: Seq<u8>, n: Seq<u8>, m: Seq<u8>, f: Seq<u8>, i: Seq<u8>) -> Seq<u8> {
    n + v4l_c(k, n, m) + v4l_tag(k, n, v4l_c(k, n, m), f, i)
}
pub open spec fn v4l_accept_cond(token: Seq<char>, k: Seq<u8>, f: Seq<u8>, i: Seq<u8>) -> bool {
    &&& token_parts_ok(token, "v4.local."@, f)
    &&& token_payload(token).len() >= 64
    &&& ({ let d = token_payload(token);
           d.subrange(d.len() - 32, d.len() as int) == v4l_tag(k, d.subrange(0, 32), d.subrange(32, d.len() - 32), f, i) })
}
pub open spec fn v4l_plain(token: Seq<char>, k: Seq<u8>) -> Seq<u8> {
    let d = token_payload(token);
    let n = d.subrange(0, 32);
    xchacha20_xor(v4l_ek(k, n), v4l_n2(k, n), d.subrange(32, d.len() - 32))
}
pub open spec fn v4l_token(k: Seq<u8>, n: Seq<u8>, m: Seq<u8>, f: Seq<u8>, i: Seq<u8>) -> Seq<char> {
    token_text("v4.local."@, v4l_payload(k, n, m, f, i), f)
}

// ---- v3.local ----------------------------------------------------------------------------------
pub open spec fn v3l_header() -> Seq<u8> { "v3.local.".spec_bytes() }
pub open spec fn v3l_tmp(k: Seq<u8>, n: Seq<u8>) -> Seq<u8> { hkdf_sha384(Seq::empty(), k, sep_ek() + n, 48) }
pub open spec fn v3l_ek(k: Seq<u8>, n: Seq<u8>) -> Seq<u8> { v3l_tmp(k, n).subrange(0, 32) }
pub open spec fn v3l_n2(k: Seq<u8>, n: Seq<u8>) -> Seq<u8> { v3l_tmp(k, n).subrange(32, 48) }
pub open spec fn v3l_ak(k: Seq<u8>, n: Seq<u8>) -> Seq<u8> { hkdf_sha384(Seq::empty(), k, sep_ak() + n, 48) }
pub open spec fn v3l_c(k: Seq<u8>, n: Seq<u8>, m: Seq<u8>) -> Seq<u8> { aes256_ctr_xor(v3l_ek(k, n), v3l_n2(k, n), m) }
pub open spec fn v3l_pre(n: Seq<u8>, c: Seq<u8>, f: Seq<u8>, i: Seq<u8>) -> Seq<u8> { pae(seq![v3l_header(), n, c, f, i]) }
pub open spec fn v3l_tag(k: Seq<u8>, n: Seq<u8>, c: Seq<u8>, f: Seq<u8>, i: Seq<u8>) -> Seq<u8> {
    hmac_sha384(v3l_ak(k, n), v3l_pre(n, c, f, i))
}
pub open spec fn v3l_payload(k: Seq<u8>, n: Seq<u8>, m: Seq<u8>, f: Seq<u8>, i: Seq<u8>) -> Seq<u8> {
    n + v3l_c(k, n, m) + v3l_tag(k, n, v3l_c(k, n, m), f, i)
}
pub open spec fn v3l_token(k: Seq<u8>, n: Seq<u8>, m: Seq<u8>, f: Seq<u8>, i: Seq<u8>) -> Seq<char> {
    token_text("v3.local."@, v3l_payload(k, n, m, f, i), f)
}
pub open spec fn v3l_accept_cond(token: Seq<char>, k: Seq<u8>, f: Seq<u8>, i: Seq<u8>) -> bool {
    &&& token_parts_ok(token, "v3.local."@, f)
    &&& token_payload(token).len() >= 80
    &&& ({ let d = token_payload(token);
           d.subrange(d.len() - 48, d.len() as int) == v3l_tag(k, d.subrange(0, 32), d.subrange(32, d.len() - 48), f, i) })
}
pub open spec fn v3l_plain(token: Seq<char>, k: Seq<u8>) -> Seq<u8> {
    let d = token_payload(token);
    let n = d.subrange(0, 32);
    aes256_ctr_xor(v3l_ek(k, n), v3l_n2(k, n), d.subrange(32, d.len() - 48))
}

// ---- v1.local ----------------------------------------------------------------------------------
pub open spec fn v1l_header() -> Seq<u8> { "v1.local.".spec_bytes() }
// GetNonce(m, n) = HMAC-SHA384(key = n, m)[0..32]
pub open spec fn v1l_nonce(rnd: Seq<u8>, m: Seq<u8>) -> Seq<u8> { hmac_sha384(rnd, m).subrange(0, 32) }
pub open spec fn v1l_ek(k: Seq<u8>, n: Seq<u8>) -> Seq<u8> { hkdf_sha384(n.subrange(0, 16), k, sep_ek(), 32) }
pub open spec fn v1l_ak(k: Seq<u8>, n: Seq<u8>) -> Seq<u8> { hkdf_sha384(n.subrange(0, 16), k, sep_ak(), 32) }
pub open spec fn v1l_c(k: Seq<u8>, n: Seq<u8>, m: Seq<u8>) -> Seq<u8> { aes256_ctr_xor(v1l_ek(k, n), n.subrange(16, 32), m) }
pub open spec fn v1l_pre(n: Seq<u8>, c: Seq<u8>, f: Seq<u8>) -> Seq<u8> { pae(seq![v1l_header(), n, c, f]) }
pub open spec fn v1l_tag(k: Seq<u8>, n: Seq<u8>, c: Seq<u8>, f: Seq<u8>) -> Seq<u8> { hmac_sha384(v1l_ak(k, n), v1l_pre(n, c, f)) }
pub open spec fn v1l_payload(k: Seq<u8>, n: Seq<u8>, m: Seq<u8>, f: Seq<u8>) -> Seq<u8> {
    n + v1l_c(k, n, m) + v1l_tag(k, n, v1l_c(k, n, m), f)
}
// token for random bytes `rnd` (the builder-side nonce argument)
pub open spec fn v1l_token(k: Seq<u8>, rnd: Seq<u8>, m: Seq<u8>, f: Seq<u8>) -> Seq<char> {
    token_text("v1.local."@, v1l_payload(k, v1l_nonce(rnd, m), m, f), f)
}
pub open spec fn v1l_accept_cond(token: Seq<char>, k: Seq<u8>, f: Seq<u8>) -> bool {
    &&& token_parts_ok(token, "v1.local."@, f)
    &&& token_payload(token).len() >= 80
    &&& ({ let d = token_payload(token);
           d.subrange(d.len() - 48, d.len() as int) == v1l_tag(k, d.subrange(0, 32), d.subrange(32, d.len() - 48), f) })
}
pub open spec fn v1l_plain(token: Seq<char>, k: Seq<u8>) -> Seq<u8> {
    let d = token_payload(token);
    let n = d.subrange(0, 32);
    aes256_ctr_xor(v1l_ek(k, n), n.subrange(16, 32), d.subrange(32, d.len() - 48))
}
// ---- v2.local ----------------------------------------------------------------------------------
pub open spec fn v2l_header() -> Seq<u8> { "v2.local.".spec_bytes() }
pub open spec fn v2l_nonce(rnd: Seq<u8>, m: Seq<u8>) -> Seq<u8> { blake2b_mac(rnd, 24, m) }
pub open spec fn v2l_pre(n: Seq<u8>, f: Seq<u8>) -> Seq<u8> { pae(seq![v2l_header(), n, f]) }
pub open spec fn v2l_payload(k: Seq<u8>, n: Seq<u8>, m: Seq<u8>, f: Seq<u8>) -> Seq<u8> {
    n + xchacha20poly1305_seal(k, n, v2l_pre(n, f), m)
}
pub open spec fn v2l_token(k: Seq<u8>, rnd: Seq<u8>, m: Seq<u8>, f: Seq<u8>) -> Seq<char> {
    token_text("v2.local."@, v2l_payload(k, v2l_nonce(rnd, m), m, f), f)
}
pub open spec fn v2l_open(token: Seq<char>, k: Seq<u8>, f: Seq<u8>) -> Option<Seq<u8>> {
    let d = token_payload(token);
    xchacha20poly1305_open(k, d.subrange(0, 24), v2l_pre(d.subrange(0, 24), f), d.subrange(24, d.len() as int))
}
pub open spec fn v2l_accept_cond(token: Seq<char>, k: Seq<u8>, f: Seq<u8>) -> bool {
    &&& token_parts_ok(token, "v2.local."@, f)
    &&& token_payload(token).len() >= 24
    &&& v2l_open(token, k, f) is Some
}
pub open spec fn v2l_plain(token: Seq<char>, k: Seq<u8>, f: Seq<u8>) -> Seq<u8> { v2l_open(token, k, f)->Some_0 }

// ---- public purposes: payload = message ++ signature -------------------------------------------
pub open spec fn pub_msg(token: Seq<char>, siglen: int) -> Seq<u8> { let d = token_payload(token); d.subrange(0, d.len() - siglen) }
pub open spec fn pub_sig(token: Seq<char>, siglen: int) -> Seq<u8> { let d = token_payload(token); d.subrange(d.len() - siglen, d.len() as int) }
// v2.public / v4.public (Ed25519)
pub open spec fn v2p_header() -> Seq<u8> { "v2.public.".spec_bytes() }
pub open spec fn v2p_pre(m: Seq<u8>, f: Seq<u8>) -> Seq<u8> { pae(seq![v2p_header(), m, f]) }
pub open spec fn v2p_token(sk: Seq<u8>, m: Seq<u8>, f: Seq<u8>) -> Seq<char> {
    token_text("v2.public."@, m + ed25519_sign(sk, v2p_pre(m, f)), f)
}
pub open spec fn v2p_accept_cond(token: Seq<char>, pk: Seq<u8>, f: Seq<u8>) -> bool {
    &&& token_parts_ok(token, "v2.public."@, f)
    &&& token_payload(token).len() >= 64
    &&& pk.len() == 32 && ed25519_pk_ok(pk)
    &&& ed25519_verify(pk, v2p_pre(pub_msg(token, 64), f), pub_sig(token, 64))
}
pub open spec fn v4p_header() -> Seq<u8> { "v4.public.".spec_bytes() }
pub open spec fn v4p_pre(m: Seq<u8>, f: Seq<u8>, i: Seq<u8>) -> Seq<u8> { pae(seq![v4p_header(), m, f, i]) }
pub open spec fn v4p_token(sk: Seq<u8>, m: Seq<u8>, f: Seq<u8>, i: Seq<u8>) -> Seq<char> {
    token_text("v4.public."@, m + ed25519_sign(sk, v4p_pre(m, f, i)), f)
}
pub open spec fn v4p_accept_cond(token: Seq<char>, pk: Seq<u8>, f: Seq<u8>, i: Seq<u8>) -> bool {
    &&& token_parts_ok(token, "v4.public."@, f)
    &&& token_payload(token).len() >= 64
    &&& pk.len() == 32 && ed25519_pk_ok(pk)
    &&& ed25519_verify(pk, v4p_pre(pub_msg(token, 64), f, i), pub_sig(token, 64))
}
// v3.public (ECDSA P-384 / SHA-384, compressed public key prepended to the PAE)
pub open spec fn v3p_header() -> Seq<u8> { "v3.public.".spec_bytes() }
pub open spec fn v3p_pre(pkc: Seq<u8>, m: Seq<u8>, f: Seq<u8>, i: Seq<u8>) -> Seq<u8> { pae(seq![pkc, v3p_header(), m, f, i]) }
pub open spec fn v3p_signed(token: Seq<char>, sk: Seq<u8>, m: Seq<u8>, f: Seq<u8>, i: Seq<u8>) -> bool {
    exists|sig: Seq<u8>| #[trigger] p384_sign_rel(sk, v3p_pre(p384_pk_of_sk(sk), m, f, i), sig) && token == token_text("v3.public."@, m + sig, f)
}
pub open spec fn v3p_accept_cond(token: Seq<char>, pk: Seq<u8>, f: Seq<u8>, i: Seq<u8>) -> bool {
    &&& token_parts_ok(token, "v3.public."@, f)
    &&& token_payload(token).len() >= 96
    &&& p384_pk_ok(pk)
    &&& p384_sig_ok(pub_sig(token, 96))
    &&& p384_verify(p384_compress(pk), v3p_pre(p384_compress(pk), pub_msg(token, 96), f, i), pub_sig(token, 96))
}
// v1.public (RSASSA-PSS / SHA-384, 2048-bit)
pub open spec fn v1p_header() -> Seq<u8> { "v1.public.".spec_bytes() }
pub open spec fn v1p_pre(m: Seq<u8>, f: Seq<u8>) -> Seq<u8> { pae(seq![v1p_header(), m, f]) }
pub open spec fn v1p_signed(token: Seq<char>, pkcs8: Seq<u8>, m: Seq<u8>, f: Seq<u8>) -> bool {
    exists|sig: Seq<u8>| #[trigger] rsa_pss_sign_rel(pkcs8, v1p_pre(m, f), sig) && sig.len() == 256 && token == token_text("v1.public."@, m + sig, f)
}
pub open spec fn v1p_accept_cond(token: Seq<char>, pk: Seq<u8>, f: Seq<u8>) -> bool {
    &&& token_parts_ok(token, "v1.public."@, f)
    &&& token_payload(token).len() >= 256
    &&& rsa_pss_verify(pk, v1p_pre(pub_msg(token, 256), f), pub_sig(token, 256))
}
}
}
