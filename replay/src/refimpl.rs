//! Independent transcription of the PASETO spec (Version1-4.md, Common.md) on real crates.
//! Used only by the witness finder (never decides a property).
#![allow(dead_code)]
use base64::prelude::*;

pub fn le64(n: u64) -> [u8; 8] { let mut n = n & 0x7fff_ffff_ffff_ffff; let mut o = [0u8; 8]; for b in o.iter_mut() { *b = (n & 255) as u8; n >>= 8; } o }
pub fn pae(pieces: &[&[u8]]) -> Vec<u8> {
    let mut o = le64(pieces.len() as u64).to_vec();
    for p in pieces { o.extend_from_slice(&le64(p.len() as u64)); o.extend_from_slice(p); }
    o
}
pub fn b64(b: &[u8]) -> String { BASE64_URL_SAFE_NO_PAD.encode(b) }
pub fn unb64(s: &str) -> Option<Vec<u8>> { BASE64_URL_SAFE_NO_PAD.decode(s).ok() }
pub fn token(header: &str, payload: &[u8], footer: &[u8]) -> String {
    if footer.is_empty() { format!("{}{}", header, b64(payload)) } else { format!("{}{}.{}", header, b64(payload), b64(footer)) }
}
pub fn blake2b_mac(key: &[u8], outlen: usize, msg: &[u8]) -> Vec<u8> {
    use blake2::digest::{consts::*, FixedOutput, KeyInit, Update};
    macro_rules! go { ($n:ty) => {{ let mut m = blake2::Blake2bMac::<$n>::new_from_slice(key).unwrap(); m.update(msg); m.finalize_fixed().to_vec() }} }
    match outlen { 24 => go!(U24), 32 => go!(U32), 56 => go!(U56), _ => panic!("len") }
}
fn hmac384(key: &[u8], msg: &[u8]) -> Vec<u8> {
    use hmac::{Hmac, Mac};
    let mut m = Hmac::<sha2::Sha384>::new_from_slice(key).unwrap(); m.update(msg); m.finalize().into_bytes().to_vec()
}
struct L(usize);
impl ring::hkdf::KeyType for L { fn len(&self) -> usize { self.0 } }
fn hkdf384(salt: &[u8], ikm: &[u8], info: &[u8], len: usize) -> Vec<u8> {
    let s = ring::hkdf::Salt::new(ring::hkdf::HKDF_SHA384, salt);
    let prk = s.extract(ikm);
    let infos = [info];
    let okm = prk.expand(&infos, L(len)).unwrap();
    let mut out = vec![0u8; len]; okm.fill(&mut out).unwrap(); out
}
fn aes256ctr(key: &[u8], iv: &[u8], data: &[u8]) -> Vec<u8> {
    use aes::cipher::{generic_array::GenericArray, NewCipher, StreamCipher};
    let mut c = aes::Aes256Ctr::new(GenericArray::from_slice(key), GenericArray::from_slice(iv));
    let mut d = data.to_vec(); c.apply_keystream(&mut d); d
}
fn xchacha(key: &[u8], nonce: &[u8], data: &[u8]) -> Vec<u8> {
    use chacha20::cipher::{KeyIvInit, StreamCipher};
    let mut c = chacha20::XChaCha20::new(chacha20::Key::from_slice(key), chacha20::XNonce::from_slice(nonce));
    let mut d = data.to_vec(); c.apply_keystream(&mut d); d
}
pub fn v4l(key: &[u8], n: &[u8], m: &[u8], f: &[u8], i: &[u8]) -> String {
    let mut ek_in = b"paseto-encryption-key".to_vec(); ek_in.extend_from_slice(n);
    let tmp = blake2b_mac(key, 56, &ek_in);
    let mut ak_in = b"paseto-auth-key-for-aead".to_vec(); ak_in.extend_from_slice(n);
    let ak = blake2b_mac(key, 32, &ak_in);
    let c = xchacha(&tmp[..32], &tmp[32..56], m);
    let t = blake2b_mac(&ak, 32, &pae(&[b"v4.local.", n, &c, f, i]));
    let mut p = n.to_vec(); p.extend_from_slice(&c); p.extend_from_slice(&t);
    token("v4.local.", &p, f)
}
pub fn v3l(key: &[u8], n: &[u8], m: &[u8], f: &[u8], i: &[u8]) -> String {
    let mut ek_in = b"paseto-encryption-key".to_vec(); ek_in.extend_from_slice(n);
    let tmp = hkdf384(&[], key, &ek_in, 48);
    let mut ak_in = b"paseto-auth-key-for-aead".to_vec(); ak_in.extend_from_slice(n);
    let ak = hkdf384(&[], key, &ak_in, 48);
    let c = aes256ctr(&tmp[..32], &tmp[32..48], m);
    let t = hmac384(&ak, &pae(&[b"v3.local.", n, &c, f, i]));
    let mut p = n.to_vec(); p.extend_from_slice(&c); p.extend_from_slice(&t);
    token("v3.local.", &p, f)
}
/// `rnd` = the 32 random bytes handed to try_encrypt
pub fn v1l(key: &[u8], rnd: &[u8], m: &[u8], f: &[u8]) -> String {
    let n = &hmac384(rnd, m)[..32];
    let ek = hkdf384(&n[..16], key, b"paseto-encryption-key", 32);
    let ak = hkdf384(&n[..16], key, b"paseto-auth-key-for-aead", 32);
    let c = aes256ctr(&ek, &n[16..], m);
    let t = hmac384(&ak, &pae(&[b"v1.local.", n, &c, f]));
    let mut p = n.to_vec(); p.extend_from_slice(&c); p.extend_from_slice(&t);
    token("v1.local.", &p, f)
}
pub fn v2l(key: &[u8], rnd: &[u8], m: &[u8], f: &[u8]) -> String {
    use chacha20poly1305::{aead::{Aead, Payload}, KeyInit, XChaCha20Poly1305, XNonce};
    let n = blake2b_mac(rnd, 24, m);
    let aead = XChaCha20Poly1305::new_from_slice(key).unwrap();
    let aad = pae(&[b"v2.local.", &n, f]);
    let c = aead.encrypt(XNonce::from_slice(&n), Payload { msg: m, aad: &aad }).unwrap();
    let mut p = n.to_vec(); p.extend_from_slice(&c);
    token("v2.local.", &p, f)
}
/// Ed25519 (v2/v4 public): keypair = seed||public (64 bytes)
pub fn ed_sign(keypair: &[u8; 64], header: &str, m: &[u8], f: &[u8], i: Option<&[u8]>) -> String {
    use ed25519_dalek::Signer;
    let sk = ed25519_dalek::SigningKey::from_keypair_bytes(keypair).unwrap();
    let pre = match i { Some(i) => pae(&[header.as_bytes(), m, f, i]), None => pae(&[header.as_bytes(), m, f]) };
    let sig = sk.sign(&pre).to_bytes();
    let mut p = m.to_vec(); p.extend_from_slice(&sig);
    token(header, &p, f)
}
pub fn ed_verify(pk: &[u8; 32], header: &str, tok: &str, f: &[u8], i: Option<&[u8]>) -> Option<Vec<u8>> {
    use ed25519_dalek::Verifier;
    let rest = tok.strip_prefix(header)?;
    let seg: Vec<&str> = rest.split('.').collect();
    let d = unb64(seg[0])?;
    if d.len() < 64 { return None; }
    let (m, s) = d.split_at(d.len() - 64);
    let pre = match i { Some(i) => pae(&[header.as_bytes(), m, f, i]), None => pae(&[header.as_bytes(), m, f]) };
    let vk = ed25519_dalek::VerifyingKey::from_bytes(pk).ok()?;
    vk.verify(&pre, &ed25519_dalek::Signature::from_slice(s).ok()?).ok()?;
    Some(m.to_vec())
}
pub fn ed_keypair(seed: u8) -> ([u8; 64], [u8; 32]) {
    let sk = ed25519_dalek::SigningKey::from_bytes(&[seed; 32]);
    (sk.to_keypair_bytes(), sk.verifying_key().to_bytes())
}
