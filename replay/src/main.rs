//! Bounded concrete witness search against the real crate (DESIGN.md 1.5).  Run only after the verifier refuted an
//! obligation or could not take changed code; prints `WITNESS <text>` for the first failing inputs it finds.
#![allow(unused, clippy::all)]
mod refimpl;
mod rsakeys;
use refimpl as R;
use rusty_paseto::prelude::*;
use std::panic::{catch_unwind, AssertUnwindSafe};

fn lk(s: &str) -> &'static str { Box::leak(s.to_string().into_boxed_str()) }
fn lkv<T>(t: T) -> &'static T { Box::leak(Box::new(t)) }
fn wit(s: String) { println!("WITNESS {}", s.replace('\n', " ")); }
fn msgs() -> Vec<String> {
    let mut v: Vec<String> = vec!["".into(), "a".into(), "{}".into(), "{\"a\":1}".into(), "Zo\u{eb} \u{2713} \u{1F511}".into(), "a.b\0c".into(), "\u{feff}".into(), "\u{feff}{\"a\":1}".into(), " a ".into(), "\n".into(), "a=".into(), "k=v==".into(), "=".into(), "==".into(), ".".into(), "a.b.c.d".into()];
    for n in [15usize, 16, 17, 24, 40, 63, 64, 65, 127, 128, 129, 200, 255, 256, 300, 1000] { v.push("x".repeat(n)); }
    v
}
fn footers() -> Vec<Option<String>> {
    vec![None, Some("".into()), Some("f".into()), Some("ok?".into()), Some("id~".into()), Some(" ".into()), Some("\n".into()), Some("\u{1F511}".into()),
         Some("{\"kid\":\"k1\"}".into()), Some("F".repeat(130)), Some("g".repeat(256)), Some("ab".into()), Some("abc".into()), Some("abcd".into()), Some("L".repeat(9000)),
         Some("printer.local.".into()), Some("{\"iss\":\"auth.local.example.org\"}".into()), Some("vault:app.secret.signing-key/v3".into()), Some("k4.local-pw.x".into()), Some("k4.lid.abc".into()), Some("{}}".into()), Some("[[".into()), Some("L".repeat(6145)), Some("{\"kid\": \"key-1\"}".into()), Some("{\"b\":1,\"a\":2}".into()), Some("{ }".into()), Some(" {\"kid\":\"k\"} ".into()), Some("{\"k\":1.0}".into()), Some("{\"k\":\"\\u0041\"}".into())]
}
fn fstr(f: &Option<String>) -> &str { f.as_deref().unwrap_or("") }
fn key32(b: u8) -> Key<32> { let mut k = [b; 32]; k[0] = 7; Key::<32>::from(k) }

// ---------------------------------------------------------------------------------------------
// local protocols, core API, through one macro per version
// ---------------------------------------------------------------------------------------------
#[cfg(feature = "main_set")]
mod local {
    use super::*;
    pub fn enc(v: u8, kb: u8, nb: u8, m: &str, f: &Option<String>, i: &Option<String>, twice: bool) -> Result<String, String> {
        let k = key32(kb); let n = Key::<32>::from([nb; 32]); let n24 = Key::<24>::from([nb; 24]);
        macro_rules! go { ($V:ty, $nonce:expr, $b:ident, $ia:stmt) => {{
            let key = PasetoSymmetricKey::<$V, Local>::from(k);
            let mut $b = Paseto::<$V, Local>::builder();
            $b.set_payload(Payload::from(m));
            if let Some(f) = f { $b.set_footer(Footer::from(f.as_str())); }
            $ia
            let mut b = $b;
            let nonce = $nonce;
            if twice { let _ = b.try_encrypt(&key, &nonce); }
            b.try_encrypt(&key, &nonce).map_err(|e| format!("{e:?}"))
        }} }
        match v {
            1 => go!(V1, PasetoNonce::<V1, Local>::from(&n), bb, {}),
            2 => go!(V2, PasetoNonce::<V2, Local>::from(&n24), bb, {}),
            3 => go!(V3, PasetoNonce::<V3, Local>::from(&n), bb, if let Some(i) = i { bb.set_implicit_assertion(ImplicitAssertion::from(i.as_str())); }),
            _ => go!(V4, PasetoNonce::<V4, Local>::from(&n), bb, if let Some(i) = i { bb.set_implicit_assertion(ImplicitAssertion::from(i.as_str())); }),
        }
    }
    pub fn dec(v: u8, kb: u8, t: &str, f: &Option<String>, i: &Option<String>) -> Result<String, PasetoError> {
        let k = key32(kb);
        let fo = f.as_deref().map(Footer::from); let io = i.as_deref().map(ImplicitAssertion::from);
        match v {
            1 => Paseto::<V1, Local>::try_decrypt(t, &PasetoSymmetricKey::<V1, Local>::from(k), fo),
            2 => Paseto::<V2, Local>::try_decrypt(t, &PasetoSymmetricKey::<V2, Local>::from(k), fo),
            3 => Paseto::<V3, Local>::try_decrypt(t, &PasetoSymmetricKey::<V3, Local>::from(k), fo, io),
            _ => Paseto::<V4, Local>::try_decrypt(t, &PasetoSymmetricKey::<V4, Local>::from(k), fo, io),
        }
    }
    pub fn reference(v: u8, kb: u8, nb: u8, m: &str, f: &Option<String>, i: &Option<String>) -> String {
        let mut k = [kb; 32]; k[0] = 7;
        let fb = fstr(f).as_bytes(); let ib = i.as_deref().unwrap_or("").as_bytes();
        match v { 1 => R::v1l(&k, &[nb; 32], m.as_bytes(), fb), 2 => R::v2l(&k, &[nb; 24], m.as_bytes(), fb),
                  3 => R::v3l(&k, &[nb; 32], m.as_bytes(), fb, ib), _ => R::v4l(&k, &[nb; 32], m.as_bytes(), fb, ib) }
    }
    pub fn is_utf8_err(e: &PasetoError) -> bool { matches!(e, PasetoError::Utf8Error { .. } | PasetoError::FromUtf8Error { .. }) }
}

#[cfg(feature = "main_set")]
fn c01() {
    for v in 1..=4u8 { for m in msgs() { for f in footers().iter().take(9) { for i in [None, Some("".to_string()), Some("ia".to_string())] {
        if v < 3 && i.is_some() { continue; }
        for twice in [false, true] {
            match local::enc(v, 1, 2, &m, f, &i, twice) {
                Err(e) => { return wit(format!("C01 v{v}.local try_encrypt failed for message len {} footer {:?} assertion {:?}: {e}", m.len(), f, i)); }
                Ok(t) => match local::dec(v, 1, &t, f, &i) {
                    Ok(p) if p == m => {}
                    other => { return wit(format!("C01 v{v}.local round trip: message {:?} (len {}) footer {:?} assertion {:?} second_encrypt_from_same_builder={twice} -> token {t} decrypts to {:?}", &m[..m.len().min(24)], m.len(), f, i, other.map_err(|e| format!("{e:?}")))); }
                }
            }
        }
    }}}}
    // multi-byte code points straddling 4096-byte multiples, every version
    for v in 1..=4u8 { for (pre, ch) in [(4095usize, "\u{e9}"), (4094, "\u{20ac}"), (4095, "\u{20ac}"), (4093, "\u{1F511}"), (8191, "\u{e9}"), (12287, "\u{1F511}"), (4096, "\u{e9}")] { let m = format!("{}{ch}{}", "a".repeat(pre), "b".repeat(700));
        match local::enc(v, 1, 2, &m, &None, &None, false) { Ok(t) => match local::dec(v, 1, &t, &None, &None) { Ok(p) if p == m => {}, o => return wit(format!("C01 v{v}.local round trip of a {}-byte message with {ch:?} starting at byte {pre}: {:?}", m.len(), o.map(|p| p.len()).map_err(|e| format!("{e:?}")))) }, Err(e) => return wit(format!("C01 v{v}.local try_encrypt failed: {e}")) } } }
    // assertions and footers that begin or end with white space
    for v in 3..=4u8 { for i in [" x", "x\n", " ", "tenant=42\n", "\tx\t"] { for f in [None, Some(" f ".to_string())] { match local::enc(v, 1, 2, "{\"a\":1}", &f, &Some(i.to_string()), false) { Ok(t) => { if local::dec(v, 1, &t, &f, &Some(i.to_string())).ok().as_deref() != Some("{\"a\":1}") { return wit(format!("C01 v{v}.local token built with assertion {i:?} and footer {f:?} does not decrypt under the same assertion and footer")); } } Err(e) => return wit(format!("C01 v{v}.local try_encrypt with assertion {i:?} fails: {e}")) } } } }
    // large messages (no size limit on either side)
    for v in 1..=4u8 { let m = "y".repeat(70_000); match local::enc(v, 1, 2, &m, &None, &None, false) { Ok(t) => match local::dec(v, 1, &t, &None, &None) { Ok(p) if p == m => {}, o => return wit(format!("C01 v{v}.local round trip of a 70000-byte message fails: {:?}", o.map(|p| p.len()).map_err(|e| format!("{e:?}")))) }, Err(e) => return wit(format!("C01 v{v}.local try_encrypt of a 70000-byte message failed: {e}")) } }
    { let key = lkv(PasetoSymmetricKey::<V4, Local>::from(key32(3))); let big = "z".repeat(66_000);
      let mut pb = PasetoBuilder::<V4, Local>::default(); pb.set_claim(CustomClaim::try_from(("blob", big.as_str())).unwrap());
      match pb.build(&key) { Ok(t) => { let r = PasetoParser::<V4, Local>::default().parse(lk(&t), key); if r.as_ref().map(|j| j["blob"] != big.as_str()).unwrap_or(true) { return wit(format!("C01 PasetoBuilder/PasetoParser<V4,Local> with a 66000-byte claim does not round-trip: {:?}", r.map(|_| "Ok(other)").map_err(|e| e.to_string()))); } } Err(e) => return wit(format!("C01 PasetoBuilder<V4,Local>::build with a 66000-byte claim failed: {e}")) } }
    // v2.local with a 32-byte nonce seed (the other public constructor of PasetoNonce<V2,Local>): "any nonce"
    { let k = PasetoSymmetricKey::<V2, Local>::from(key32(1)); let seed = Key::<32>::from([2u8; 32]);
      for m in ["", "{\"a\":1}", "msg"] { let mut b = Paseto::<V2, Local>::builder(); b.set_payload(Payload::from(m));
        match b.try_encrypt(&k, &PasetoNonce::<V2, Local>::from(&seed)) { Err(e) => return wit(format!("C01 v2.local try_encrypt of {m:?} with a nonce built from a 32-byte seed (PasetoNonce::<V2,Local>::from(&Key<32>)) fails: {e:?}")),
            Ok(t) => match Paseto::<V2, Local>::try_decrypt(&t, &k, None) { Ok(p) if p == m => {}, o => return wit(format!("C01 v2.local token of {m:?} built with a 32-byte nonce seed decrypts to {o:?}")) } } } }
    layers_roundtrip(); layer_setter_orders("C01"); claims_between_builds("C01");
}
#[cfg(feature = "main_set")]
fn layers_roundtrip() {
    // generic + batteries-included layers, v4 local/public and v1-v3 local
    for fo in [None, Some("ft"), Some("ok?")] { for ia in [None, Some("ia")] {
        macro_rules! loc { ($V:ty, $has_ia:expr) => {{
            let key = lkv(PasetoSymmetricKey::<$V, Local>::from(key32(3)));
            let mut b = GenericBuilder::<$V, Local>::default();
            b.set_claim(AudienceClaim::from("customers")).set_claim(CustomClaim::try_from(("n", 5)).unwrap());
            if let Some(f) = fo { b.set_footer(Footer::from(f)); }
            let t = b.try_encrypt(&key);
            let mut p = GenericParser::<$V, Local>::default();
            if let Some(f) = fo { p.set_footer(Footer::from(f)); }
            (t, p, key)
        }} }
        { let (t, mut p, key) = loc!(V1, false); if ia.is_none() { match t { Ok(t) => { let r = p.parse(lk(&t), key); if r.as_ref().map(|j| j["aud"] != "customers" || j["n"] != 5).unwrap_or(true) { return wit(format!("C01 GenericBuilder/GenericParser<V1,Local> footer {fo:?}: {t} -> {:?}", r.map_err(|e| e.to_string()))); } } Err(e) => return wit(format!("C01 GenericBuilder<V1,Local>::try_encrypt failed: {e}")) } } }
        { let (t, mut p, key) = loc!(V2, false); if ia.is_none() { match t { Ok(t) => { let r = p.parse(lk(&t), key); if r.as_ref().map(|j| j["aud"] != "customers" || j["n"] != 5).unwrap_or(true) { return wit(format!("C01 GenericBuilder/GenericParser<V2,Local> footer {fo:?}: {t} -> {:?}", r.map_err(|e| e.to_string()))); } } Err(e) => return wit(format!("C01 GenericBuilder<V2,Local>::try_encrypt failed: {e}")) } } }
        macro_rules! loc_ia { ($V:ty) => {{
            let key = lkv(PasetoSymmetricKey::<$V, Local>::from(key32(3)));
            let mut b = GenericBuilder::<$V, Local>::default();
            b.set_claim(AudienceClaim::from("customers")).set_claim(CustomClaim::try_from(("n", 5)).unwrap());
            if let Some(f) = fo { b.set_footer(Footer::from(f)); }
            if let Some(i) = ia { b.set_implicit_assertion(ImplicitAssertion::from(i)); }
            let mut p = GenericParser::<$V, Local>::default();
            if let Some(f) = fo { p.set_footer(Footer::from(f)); }
            if let Some(i) = ia { p.set_implicit_assertion(ImplicitAssertion::from(i)); }
            for round in 0..2 { match b.try_encrypt(&key) { Ok(t) => { let r = p.parse(lk(&t), key); if r.as_ref().map(|j| j["aud"] != "customers" || j["n"] != 5).unwrap_or(true) { return wit(format!("C01 GenericBuilder/GenericParser<{},Local> footer {fo:?} assertion {ia:?} build #{round}: {t} -> {:?}", stringify!($V), r.map_err(|e| e.to_string()))); } } Err(e) => return wit(format!("C01 GenericBuilder<{},Local>::try_encrypt failed: {e}", stringify!($V))) } }
            let mut pb = PasetoBuilder::<$V, Local>::default();
            pb.set_claim(SubjectClaim::from("s1"));
            if let Some(f) = fo { pb.set_footer(Footer::from(f)); }
            if let Some(i) = ia { pb.set_implicit_assertion(ImplicitAssertion::from(i)); }
            let mut pp = PasetoParser::<$V, Local>::default();
            if let Some(f) = fo { pp.set_footer(Footer::from(f)); }
            if let Some(i) = ia { pp.set_implicit_assertion(ImplicitAssertion::from(i)); }
            match pb.build(&key) { Ok(t) => { let r = pp.parse(lk(&t), key); if r.as_ref().map(|j| j["sub"] != "s1").unwrap_or(true) { return wit(format!("C01 PasetoBuilder/PasetoParser<{},Local> footer {fo:?} assertion {ia:?}: {t} -> {:?}", stringify!($V), r.map_err(|e| e.to_string()))); } } Err(e) => return wit(format!("C01 PasetoBuilder<{},Local>::build failed: {e}", stringify!($V))) }
        }} }
        loc_ia!(V3); loc_ia!(V4);
    }}
}

// tamper an authentic token in many ways; every variant must be rejected with a non-UTF-8 error
#[cfg(feature = "main_set")]
fn tampered(t: &str) -> Vec<(String, String)> {
    let mut out = vec![];
    let parts: Vec<&str> = t.split('.').collect();
    let hdr = format!("{}.{}.", parts[0], parts[1]);
    if let Some(d) = R::unb64(parts[2]) {
        let n = d.len();
        let mut pos: Vec<usize> = vec![0, 1, 15, 16, 23, 24, 31, 32, 33, n / 2, n.saturating_sub(49), n.saturating_sub(48), n.saturating_sub(33), n.saturating_sub(32), n.saturating_sub(17), n.saturating_sub(16), n.saturating_sub(1)];
        pos.retain(|&p| p < n); pos.sort(); pos.dedup();
        for p in pos { for bit in [0u8, 7] { let mut e = d.clone(); e[p] ^= 1 << bit;
            let mut s = format!("{hdr}{}", R::b64(&e)); if parts.len() == 4 { s.push('.'); s.push_str(parts[3]); }
            out.push((format!("bit {bit} of decoded byte {p}/{n} flipped"), s)); } }
        for cut in [1usize, 16, 32] { if n > cut { let mut s = format!("{hdr}{}", R::b64(&d[..n - cut])); if parts.len() == 4 { s.push('.'); s.push_str(parts[3]); } out.push((format!("payload truncated by {cut}"), s)); } }
        { let mut e = d.clone(); e.push(0); let mut s = format!("{hdr}{}", R::b64(&e)); if parts.len() == 4 { s.push('.'); s.push_str(parts[3]); } out.push(("payload extended by one zero byte".into(), s)); }
    }
    if parts.len() == 4 {
        let f = parts[3];
        out.push(("footer segment: last char dropped".into(), format!("{hdr}{}.{}", parts[2], &f[..f.len() - 1])));
        out.push(("footer segment: 'A' appended".into(), format!("{hdr}{}.{}A", parts[2], f)));
        out.push(("footer segment: 256 chars appended".into(), format!("{hdr}{}.{}{}", parts[2], f, "A".repeat(256))));
        out.push(("footer segment: '=' appended".into(), format!("{hdr}{}.{}=", parts[2], f)));
        out.push(("footer segment: '==' appended".into(), format!("{hdr}{}.{}==", parts[2], f)));
        out.push(("footer segment removed".into(), format!("{hdr}{}", parts[2])));
        if f.len() > 256 { out.push(("footer segment: truncated by 256".into(), format!("{hdr}{}.{}", parts[2], &f[..f.len() - 256]))); }
        let mut c: Vec<char> = f.chars().collect(); c[0] = if c[0] == 'A' { 'B' } else { 'A' };
        out.push(("footer segment: first char replaced".into(), format!("{hdr}{}.{}", parts[2], c.iter().collect::<String>())));
    } else {
        out.push(("footer segment of 256 chars added".into(), format!("{t}.{}", "A".repeat(256))));
        out.push(("footer segment 'Zm9v' added".into(), format!("{t}.Zm9v")));
        for seg in ["!", "A", "@@@@", "Zm9v=", "Zm9", "=", "%20", "\u{20ac}", " "] { out.push((format!("malformed footer segment {seg:?} added"), format!("{t}.{seg}"))); }
    }
    for (what, extra) in [("one more empty segment ('.' appended)", "."), ("a segment 'AAAA' appended", ".AAAA"), ("two empty segments appended", ".."), ("segments '.x.y.z' appended", ".x.y.z"), ("'..junk' appended", "..junk")] {
        // (a single trailing '.' after a footer-less token is the tolerated empty footer segment; the caller filters that case)
        out.push((format!("{what}"), format!("{t}{extra}"))); }
    if let Some(d) = R::unb64(parts[2]) { if let Some(ix) = d.windows(3).position(|w| w == [0xEF, 0xBF, 0xBD]) { for bad in [vec![0xFFu8], vec![0xC0], vec![0x80], vec![0xEF, 0xBF]] { let mut e = d[..ix].to_vec(); e.extend_from_slice(&bad); e.extend_from_slice(&d[ix + 3..]);
        let mut s = format!("{hdr}{}", R::b64(&e)); if parts.len() == 4 { s.push('.'); s.push_str(parts[3]); } out.push((format!("the bytes EF BF BD (U+FFFD) at offset {ix} of the decoded payload replaced by {bad:02x?}"), s)); } } }
    if parts[2].contains('-') || parts[2].contains('_') { let alt = parts[2].replace('-', "+").replace('_', "/"); let mut s = format!("{hdr}{alt}"); if parts.len() == 4 { s.push('.'); s.push_str(parts[3]); } out.push(("payload text rewritten in the standard base64 alphabet (+ and / for - and _)".into(), s)); }
    for (from, to) in [('-', '+'), ('_', '/')] { if let Some(ix) = parts[2].find(from) { let mut alt = parts[2].to_string(); alt.replace_range(ix..ix + 1, &to.to_string()); let mut s = format!("{hdr}{alt}"); if parts.len() == 4 { s.push('.'); s.push_str(parts[3]); } out.push((format!("first {from:?} of the payload text replaced by {to:?}"), s)); } }
    if parts.len() == 4 && (parts[3].contains('-') || parts[3].contains('_')) { out.push(("footer segment rewritten in the standard base64 alphabet".into(), format!("{hdr}{}.{}", parts[2], parts[3].replace('-', "+").replace('_', "/")))); }
    out.push(("one char appended to payload text".into(), { let mut s = format!("{hdr}{}A", parts[2]); if parts.len() == 4 { s.push('.'); s.push_str(parts[3]); } s }));
    out.push(("payload text with '=' padding".into(), { let mut s = format!("{hdr}{}=", parts[2]); if parts.len() == 4 { s.push('.'); s.push_str(parts[3]); } s }));
    out.push(("payload text with '==' padding".into(), { let mut s = format!("{hdr}{}==", parts[2]); if parts.len() == 4 { s.push('.'); s.push_str(parts[3]); } s }));
    if let Some(d) = R::unb64(parts[2]) { let n = d.len();
        for (a, b) in [(1usize, 2usize), (1, 17), (1, 32), (5, 9)] { if n > b { for mask in [0x01u8, 0x80, 0xff] { let mut e = d.clone(); e[n - a] ^= mask; e[n - b] ^= mask;
            let mut s = format!("{hdr}{}", R::b64(&e)); if parts.len() == 4 { s.push('.'); s.push_str(parts[3]); }
            out.push((format!("decoded bytes {}/{n} and {}/{n} both XORed with {mask:#04x}", n - a, n - b), s)); } } } }
    out
}
#[cfg(feature = "main_set")]
fn c03() {
    for v in 1..=4u8 { for m in ["", "a", "{\"data\":\"this is a signed message\"}", &"\u{e9}".repeat(40), &"x".repeat(64)] { for f in [None, Some("ft".to_string()), Some("ok?".to_string()), Some("f".repeat(300))] {
        let i = if v >= 3 { Some("ia".to_string()) } else { None };
        let t = match local::enc(v, 1, 2, m, &f, &i, false) { Ok(t) => t, Err(_) => continue };
        for (what, t2) in tampered(&t) {
            if t2 == t { continue; }
            let res = match catch_unwind(AssertUnwindSafe(|| local::dec(v, 1, &t2, &f, &i))) { Ok(r) => r, Err(_) => return wit(format!("C03 v{v}.local PANICS on an altered token ({what}) instead of returning an error: {t2}")) };
            match res {
                Ok(p) => { if !(p == m && (t2 == format!("{t}.") || t == format!("{t2}."))) { return wit(format!("C03 v{v}.local accepts an altered token ({what}): authentic {t} (message len {}, footer {:?}) altered {t2} -> Ok({:?})", m.len(), f.as_ref().map(|x| x.len()), &p[..p.len().min(20)])); } }
                Err(e) => { if local::is_utf8_err(&e) { return wit(format!("C03 v{v}.local rejects an altered token ({what}) with a UTF-8 error, i.e. plaintext was handled before authentication: altered {t2} -> {e:?}")); } }
            }
        }
    }}}
    for v in 1..=4u8 { for l in (0..=300usize).step_by(1) { let f = "f".repeat(l); let fo = if l == 0 { None } else { Some(f.clone()) };
        if let Ok(t) = local::enc(v, 1, 2, "m", &fo, &None, false) { let parts: Vec<&str> = t.split('.').collect(); if let Some(mut d) = R::unb64(parts[2]) { let n = d.len(); let pos = if v == 2 { 24 } else { 32 }; if n > pos { d[pos] ^= 1;
            let mut t2 = format!("{}.{}.{}", parts[0], parts[1], R::b64(&d)); if parts.len() == 4 { t2.push('.'); t2.push_str(parts[3]); }
            if let Ok(p) = local::dec(v, 1, &t2, &fo, &None) { return wit(format!("C03 v{v}.local with a {l}-byte footer accepts a token whose first ciphertext byte was changed -> {p:?}")); } } } } } }
    for v in 1..=4u8 { for n in [4097usize, 5000, 8192, 9001, 20_000] { let m = "z".repeat(n); if let Ok(t) = local::enc(v, 1, 2, &m, &None, &None, false) { let parts: Vec<&str> = t.split('.').collect(); if let Some(d) = R::unb64(parts[2]) { let len = d.len(); let tagl = match v { 1 | 3 => 48, 2 => 16, _ => 32 };
        for back in [1usize, 17, 100, 4000] { if len > tagl + back { let mut e = d.clone(); e[len - tagl - back] ^= 1; let t2 = format!("{}.{}.{}", parts[0], parts[1], R::b64(&e));
            if let Ok(p) = local::dec(v, 1, &t2, &None, &None) { return wit(format!("C03 v{v}.local token of a {n}-byte message accepts a changed ciphertext byte {back} before the end of the ciphertext -> returns a message of {} bytes that {}", p.len(), if p == m { "equals the original" } else { "differs from the original" })); } } } } } } }
    footer_rebinding("C03");
    // the parser layers must not normalise the token text either
    { let key = lkv(PasetoSymmetricKey::<V4, Local>::from(key32(1))); let mut pb = PasetoBuilder::<V4, Local>::default();
      if let Ok(t) = pb.build(&key) { for (what, t2) in [("leading space", format!(" {t}")), ("trailing newline", format!("{t}\n")), ("trailing space", format!("{t} ")), ("leading tab", format!("\t{t}")), ("CRLF around", format!("\r\n{t}\r\n")), ("trailing NUL", format!("{t}\0"))] {
          if PasetoParser::<V4, Local>::default().parse(lk(&t2), key).is_ok() { return wit(format!("C03 PasetoParser<V4,Local> accepts an extended token ({what}): {t2:?}")); }
          if GenericParser::<V4, Local>::default().parse(lk(&t2), key).is_ok() { return wit(format!("C03 GenericParser<V4,Local> accepts an extended token ({what}): {t2:?}")); } } }
      let (kp, pk) = R::ed_keypair(9); let k64 = lkv(Key::<64>::from(kp)); let k32 = lkv(Key::<32>::from(pk));
      let mut pb = PasetoBuilder::<V4, Public>::default();
      if let Ok(t) = pb.build(&PasetoAsymmetricPrivateKey::<V4, Public>::from(k64)) { let pkk = lkv(PasetoAsymmetricPublicKey::<V4, Public>::from(k32));
        for (what, t2) in [("leading space", format!(" {t}")), ("trailing newline", format!("{t}\n")), ("trailing space", format!("{t} "))] {
          if PasetoParser::<V4, Public>::default().parse(lk(&t2), pkk).is_ok() { return wit(format!("C03 PasetoParser<V4,Public> accepts an extended token ({what}): {t2:?}")); } } } }
    // parser layers: every altered token is refused with a cipher (authentication / format) error - never a JSON or claim error - whatever the footer looks like
    { let key = lkv(PasetoSymmetricKey::<V4, Local>::from(key32(1)));
      for f in [Some("{\"kid\":\"k1\"}"), Some("[1,2]"), Some("ft"), None] {
        let mut b = GenericBuilder::<V4, Local>::default(); b.set_claim(SubjectClaim::from("alice")); if let Some(f) = f { b.set_footer(Footer::from(f)); }
        let t = match b.try_encrypt(key) { Ok(t) => t, Err(_) => continue };
        let mut alts = tampered(&t);
        let seg: Vec<&str> = t.split('.').collect(); let base = seg[..3].join(".");
        for nf in ["{\"kid\":\"k2\"}", "{\"kid\":", "{", "{}", "{\"kid\":\"k1\"} ", "[1,2", "\"", "{\"a\":{\"a\":{\"a\":{\"a\":{\"a\":{\"a\":{\"a\":{\"a\":{\"a\":{\"a\":1}}}}}}}}}}"] { if Some(nf) != f { alts.push((format!("footer segment replaced by the encoding of {nf:?}"), format!("{base}.{}", R::b64(nf.as_bytes())))); } }
        for (what, t2) in alts { if t2 == t || t2 == format!("{t}.") || t == format!("{t2}.") { continue; } let t2 = lk(&t2);
          for layer in 0..2 {
            let r: Result<(), String> = if layer == 0 { let mut p = GenericParser::<V4, Local>::default(); if let Some(f) = f { p.set_footer(Footer::from(f)); }
                  match p.parse(t2, key) { Ok(_) => Ok(()), Err(e) => Err(if matches!(e, GenericParserError::CipherError { .. }) { String::new() } else { format!("{e:?}") }) } }
                else { let mut p = PasetoParser::<V4, Local>::default(); if let Some(f) = f { p.set_footer(Footer::from(f)); }
                  match p.parse(t2, key) { Ok(_) => Ok(()), Err(e) => Err(if matches!(e, GenericParserError::CipherError { .. }) { String::new() } else { format!("{e:?}") }) } };
            let name = if layer == 0 { "GenericParser" } else { "PasetoParser" };
            match r { Ok(()) => return wit(format!("C03 {name}<V4,Local> (expected footer {f:?}) accepts an altered token ({what}): {t2}")),
                      Err(e) if !e.is_empty() => return wit(format!("C03 {name}<V4,Local> (expected footer {f:?}) refuses an altered token ({what}) with {e} - not an authentication or format error, i.e. unauthenticated bytes were interpreted: {t2}")),
                      _ => {} } } } } }
    public_tamper();
}
#[cfg(feature = "main_set")]
fn public_tamper() {
    let (kp, pk) = R::ed_keypair(9);
    for m in ["", "{\"a\":1}", &"x".repeat(64), "a\u{fffd}b", "{\"n\":\"\u{fffd}\"}"] { for f in [None, Some("ft"), Some(" "), Some("\n")] {
        let k64 = lkv(Key::<64>::from(kp)); let k32 = lkv(Key::<32>::from(pk));
        let sk = PasetoAsymmetricPrivateKey::<V4, Public>::from(k64); let pkk = lkv(PasetoAsymmetricPublicKey::<V4, Public>::from(k32));
        let mut b = Paseto::<V4, Public>::builder(); b.set_payload(Payload::from(m)); if let Some(f) = f { b.set_footer(Footer::from(f)); }
        let t = match b.try_sign(&sk) { Ok(t) => t, Err(e) => return wit(format!("C02 v4.public try_sign failed: {e:?}")) };
        match Paseto::<V4, Public>::try_verify(&t, pkk, f.map(Footer::from), None) { Ok(p) if p == m => {}, o => return wit(format!("C02 v4.public round trip failed: message {m:?} footer {f:?} token {t} -> {:?}", o.map_err(|e| format!("{e:?}")))) }
        for (what, t2) in tampered(&t) { if let Ok(p) = Paseto::<V4, Public>::try_verify(&t2, pkk, f.map(Footer::from), None) { if !(p == m && (t2 == format!("{t}.") || t == format!("{t2}."))) { return wit(format!("C03 v4.public accepts an altered token ({what}): {t2}")); } } }
        let sk2 = PasetoAsymmetricPrivateKey::<V2, Public>::from(k64); let pk2 = lkv(PasetoAsymmetricPublicKey::<V2, Public>::from(k32));
        let mut b = Paseto::<V2, Public>::builder(); b.set_payload(Payload::from(m)); if let Some(f) = f { b.set_footer(Footer::from(f)); }
        let t = match b.try_sign(&sk2) { Ok(t) => t, Err(e) => return wit(format!("C02 v2.public try_sign failed: {e:?}")) };
        match Paseto::<V2, Public>::try_verify(&t, pk2, f.map(Footer::from)) { Ok(p) if p == m => {}, o => return wit(format!("C02 v2.public round trip failed: message {m:?} footer {f:?} token {t} -> {:?}", o.map_err(|e| format!("{e:?}")))) }
        for (what, t2) in tampered(&t) { if let Ok(p) = Paseto::<V2, Public>::try_verify(&t2, pk2, f.map(Footer::from)) { if !(p == m && (t2 == format!("{t}.") || t == format!("{t2}."))) { return wit(format!("C03 v2.public accepts an altered token ({what}): {t2}")); } } }
        // footer expectation matrix for v2.public (C05)
        for f2 in [None, Some("ft"), Some("other")] { let same = f.unwrap_or("") == f2.unwrap_or("");
            let r = Paseto::<V2, Public>::try_verify(&t, pk2, f2.map(Footer::from));
            if r.is_ok() != same { return wit(format!("C05 v2.public token built with footer {f:?} verified with expected footer {f2:?} -> {:?}", r.map_err(|e| format!("{e:?}")))); } }
    }}
}
#[cfg(feature = "main_set")]
fn c04() {
    for v in 1..=4u8 { for m in ["", "{\"a\":1}"] {
        let t = local::enc(v, 1, 2, m, &None, &None, false).unwrap_or_default();
        for kb in [0u8, 2, 255, 3] { if let Ok(p) = local::dec(v, kb, &t, &None, &None) { return wit(format!("C04 v{v}.local token built under key [7,1,1,..] decrypts under key [7,{kb},{kb},..] -> {p:?}")); } }
    }}
    // same parser instance, same token, another key (C04 at the parser layers)
    { let key = lkv(PasetoSymmetricKey::<V4, Local>::from(key32(1))); let other = lkv(PasetoSymmetricKey::<V4, Local>::from(key32(2)));
      let mut b = GenericBuilder::<V4, Local>::default(); b.set_claim(AudienceClaim::from("a"));
      if let Ok(t) = b.try_encrypt(key) { let t = lk(&t);
        let mut p = GenericParser::<V4, Local>::default(); let first = p.parse(t, key).is_ok(); if p.parse(t, other).is_ok() { return wit(format!("C04 one GenericParser<V4,Local>: parse(token, K) = {first}, then parse(same token, K') is accepted")); }
        let mut pp = PasetoParser::<V4, Local>::default(); let mut bb = PasetoBuilder::<V4, Local>::default(); if let Ok(t2) = bb.build(key) { let t2 = lk(&t2); let first = pp.parse(t2, key).is_ok(); if pp.parse(t2, other).is_ok() { return wit(format!("C04 one PasetoParser<V4,Local>: parse(token, K) = {first}, then parse(same token, K') is accepted")); } } } }
    { let repo = std::env::args().nth(2).unwrap_or("/repo".into());
      let (skf, pkf) = (std::fs::read(format!("{repo}/tests/v1_public_test_vectors_private_key.pk8")).or_else(|_| std::fs::read("/repo/tests/v1_public_test_vectors_private_key.pk8")), std::fs::read(format!("{repo}/tests/v1_public_test_vectors_public_key.der")).or_else(|_| std::fs::read("/repo/tests/v1_public_test_vectors_public_key.der")));
      if let (Ok(sk), Ok(pk)) = (skf, pkf) {
        let mut b = Paseto::<V1, Public>::builder(); b.set_payload(Payload::from("{\"a\":1}"));
        if let Ok(t) = b.try_sign(&PasetoAsymmetricPrivateKey::<V1, Public>::from(&sk[..])) {
            let mut other = pk.clone(); let mid = other.len() / 2; other[mid] ^= 0x55;
            for (what, kb) in [("300 bytes of 0x01", vec![1u8; 300]), ("the signer's key with one modulus byte changed", other), ("an empty key", vec![])] {
                if Paseto::<V1, Public>::try_verify(&t, &PasetoAsymmetricPublicKey::<V1, Public>::from(&kb[..]), None).is_ok() { return wit(format!("C04 v1.public token verifies under a key that is not the signer's ({what})")); } } } } }
    // many wrong keys on short messages (a comparison that only checks part of the tag lets some through)
    for v in [1u8, 3, 4] { for m in ["", "a"] { if let Ok(t) = local::enc(v, 1, 2, m, &None, &None, false) { for kb in 8u8..=255 { if let Ok(p) = local::dec(v, kb, &t, &None, &None) { return wit(format!("C04 v{v}.local token of message {m:?} built under key [7,1,1,..] decrypts under key [7,{kb},{kb},..] -> {p:?}")); } } } } }
    let (kp, _pk) = R::ed_keypair(9); let (_kp2, pk2) = R::ed_keypair(10);
    let k64 = lkv(Key::<64>::from(kp)); let k32 = lkv(Key::<32>::from(pk2));
    let mut b = Paseto::<V4, Public>::builder(); b.set_payload(Payload::from("{}"));
    if let Ok(t) = b.try_sign(&PasetoAsymmetricPrivateKey::<V4, Public>::from(k64)) { if Paseto::<V4, Public>::try_verify(&t, &PasetoAsymmetricPublicKey::<V4, Public>::from(k32), None, None).is_ok() { return wit(format!("C04 v4.public token verifies under an unrelated public key: {t}")); }
        // verify under the right key first, then under every single-bit neighbour of it (v4 and v2)
        let (_kpa, pka) = R::ed_keypair(9); let right = lkv(Key::<32>::from(pka));
        let _ = Paseto::<V4, Public>::try_verify(&t, &PasetoAsymmetricPublicKey::<V4, Public>::from(right), None, None);
        for byte in 0..32usize { for bit in [0u8, 7] { let mut nb = pka; nb[byte] ^= 1 << bit; let nk = lkv(Key::<32>::from(nb));
            if Paseto::<V4, Public>::try_verify(&t, &PasetoAsymmetricPublicKey::<V4, Public>::from(nk), None, None).is_ok() { return wit(format!("C04 v4.public token verifies under a neighbour of the signer's key (bit {bit} of byte {byte} flipped) after a verification under the right key")); } } }
        let mut b2 = Paseto::<V2, Public>::builder(); b2.set_payload(Payload::from("{}"));
        if let Ok(t2) = b2.try_sign(&PasetoAsymmetricPrivateKey::<V2, Public>::from(k64)) { let _ = Paseto::<V2, Public>::try_verify(&t2, &PasetoAsymmetricPublicKey::<V2, Public>::from(right), None);
            for byte in 0..32usize { let mut nb = pka; nb[byte] ^= 1; let nk = lkv(Key::<32>::from(nb));
                if Paseto::<V2, Public>::try_verify(&t2, &PasetoAsymmetricPublicKey::<V2, Public>::from(nk), None).is_ok() { return wit(format!("C04 v2.public token verifies under a neighbour of the signer's key (bit 0 of byte {byte} flipped) after a verification under the right key")); } } } }
    // one builder used with key (pair) A, then with B, nothing else changed: the second token belongs to B alone
    { let (kpa, pka) = R::ed_keypair(9); let (kpb, pkb) = R::ed_keypair(10);
      let ska = PasetoAsymmetricPrivateKey::<V4, Public>::from(lkv(Key::<64>::from(kpa))); let skb = PasetoAsymmetricPrivateKey::<V4, Public>::from(lkv(Key::<64>::from(kpb)));
      let pa = lkv(PasetoAsymmetricPublicKey::<V4, Public>::from(lkv(Key::<32>::from(pka)))); let pb = lkv(PasetoAsymmetricPublicKey::<V4, Public>::from(lkv(Key::<32>::from(pkb))));
      for layer in 0..3 {
        let (t1, t2) = match layer { 0 => { let mut b = GenericBuilder::<V4, Public>::default(); b.set_claim(AudienceClaim::from("a")); (b.try_sign(&ska).ok(), b.try_sign(&skb).ok()) }
                                     1 => { let mut b = PasetoBuilder::<V4, Public>::default(); (b.build(&ska).ok(), b.build(&skb).ok()) }
                                     _ => { let mut b = Paseto::<V4, Public>::builder(); b.set_payload(Payload::from("{\"a\":1}")); (b.try_sign(&ska).ok(), b.try_sign(&skb).ok()) } };
        let name = ["GenericBuilder", "PasetoBuilder", "core builder"][layer];
        if let (Some(_), Some(t2)) = (t1, t2) { let t2 = lk(&t2);
            let under_a = Paseto::<V4, Public>::try_verify(t2, pa, None, None).is_ok(); let under_b = Paseto::<V4, Public>::try_verify(t2, pb, None, None).is_ok();
            if under_a || !under_b { return wit(format!("C04 one {name}<V4,Public> signs with key pair A and then with key pair B: the second token verifies under A's public key = {under_a}, under B's = {under_b} (must be false, true)")); } } }
      let (k1, k2) = (lkv(PasetoSymmetricKey::<V4, Local>::from(key32(1))), lkv(PasetoSymmetricKey::<V4, Local>::from(key32(2))));
      for layer in 0..2 { let t2 = if layer == 0 { let mut b = GenericBuilder::<V4, Local>::default(); b.set_claim(AudienceClaim::from("a")); let _ = b.try_encrypt(k1); b.try_encrypt(k2).ok() } else { let mut b = PasetoBuilder::<V4, Local>::default(); let _ = b.build(k1); b.build(k2).ok() };
        if let Some(t2) = t2 { let t2 = lk(&t2); let u1 = Paseto::<V4, Local>::try_decrypt(t2, k1, None, None).is_ok(); let u2 = Paseto::<V4, Local>::try_decrypt(t2, k2, None, None).is_ok();
            if u1 || !u2 { return wit(format!("C04 one {}<V4,Local> encrypts under K1 and then under K2: the second token decrypts under K1 = {u1}, under K2 = {u2} (must be false, true)", if layer == 0 { "GenericBuilder" } else { "PasetoBuilder" })); } } } }
    // several local keys in one process, in both orders (derived-key caches)
    for v in 1..=4u8 { let ta = local::enc(v, 1, 2, "{\"a\":1}", &None, &None, false).unwrap_or_default(); let tb = local::enc(v, 9, 2, "{\"a\":1}", &None, &None, false).unwrap_or_default();
        for (tok, own, other) in [(&ta, 1u8, 9u8), (&tb, 9, 1), (&ta, 1, 9)] { if local::dec(v, own, tok, &None, &None).is_err() { return wit(format!("C01 v{v}.local token does not decrypt under its own key [7,{own},..] after other keys were used in the process")); }
            if local::dec(v, other, tok, &None, &None).is_ok() { return wit(format!("C04 v{v}.local token built under key [7,{own},..] decrypts under key [7,{other},..] once both keys have been used in the process")); } } }
}
// every way of constructing a Key (by value, by reference to an array, from a slice, from hex) must yield the same key material:
// a token built under it equals the reference token (C01/C08) and no single-bit neighbour of the key, built the same way, opens it (C04)
#[cfg(feature = "main_set")]
fn key_constructors(pid: &str) {
    if !["C01", "C04", "C08"].contains(&pid) { return; }
    let mut kb = [0u8; 32]; for (i, b) in kb.iter_mut().enumerate() { *b = (i as u8).wrapping_mul(7).wrapping_add(3); }
    fn hexs(b: &[u8]) -> String { b.iter().map(|x| format!("{x:02x}")).collect() }
    let forms: Vec<(&str, Box<dyn Fn(&[u8; 32]) -> Option<Key<32>>>)> = vec![
        ("Key::from([u8; 32])", Box::new(|b| Some(Key::<32>::from(*b)))),
        ("Key::from(&[u8; 32])", Box::new(|b| Some(Key::<32>::from(b)))),
        ("Key::from(&[u8])", Box::new(|b| Some(Key::<32>::from(&b[..])))),
        ("Key::try_from(hex)", Box::new(|b| Key::<32>::try_from(hexs(b).as_str()).ok())),
    ];
    let n = Key::<32>::from([2u8; 32]); let n24 = Key::<24>::from([2u8; 24]);
    for (what, mk) in &forms { for v in 1..=4u8 { for m in ["", "{\"a\":1}"] {
        macro_rules! enc { ($V:ty, $nonce:expr) => {{ match mk(&kb) { None => Err("key constructor failed".to_string()), Some(k) => {
            let key = PasetoSymmetricKey::<$V, Local>::from(k); let mut b = Paseto::<$V, Local>::builder(); b.set_payload(Payload::from(m)); b.try_encrypt(&key, &$nonce).map_err(|e| format!("{e:?}")) } } }} }
        let t = match v { 1 => enc!(V1, PasetoNonce::<V1, Local>::from(&n)), 2 => enc!(V2, PasetoNonce::<V2, Local>::from(&n24)), 3 => enc!(V3, PasetoNonce::<V3, Local>::from(&n)), _ => enc!(V4, PasetoNonce::<V4, Local>::from(&n)) };
        let want = match v { 1 => R::v1l(&kb, &[2; 32], m.as_bytes(), b""), 2 => R::v2l(&kb, &[2; 24], m.as_bytes(), b""), 3 => R::v3l(&kb, &[2; 32], m.as_bytes(), b"", b""), _ => R::v4l(&kb, &[2; 32], m.as_bytes(), b"", b"") };
        let t = match t { Ok(t) => t, Err(e) => { if pid != "C04" { return wit(format!("{pid} v{v}.local encryption of {m:?} under a key built with {what} fails: {e}")); } continue; } };
        if pid != "C04" && t != want { return wit(format!("{pid} v{v}.local token of {m:?} under the key [3,10,17,..] built with {what} is {t}, the specification gives {want}")); }
        if pid == "C04" { // the right key first (a cache keyed on part of the key would now be warm), then the neighbours
            if let Some(kr) = mk(&kb) { let ok = match v { 1 => Paseto::<V1, Local>::try_decrypt(&t, &PasetoSymmetricKey::<V1, Local>::from(kr), None).is_ok(), 2 => Paseto::<V2, Local>::try_decrypt(&t, &PasetoSymmetricKey::<V2, Local>::from(kr), None).is_ok(),
                3 => Paseto::<V3, Local>::try_decrypt(&t, &PasetoSymmetricKey::<V3, Local>::from(kr), None, None).is_ok(), _ => Paseto::<V4, Local>::try_decrypt(&t, &PasetoSymmetricKey::<V4, Local>::from(kr), None, None).is_ok() };
                if !ok { return wit(format!("C01 v{v}.local token of {m:?} does not decrypt under the key it was built with ({what})")); } }
            for byte in [0usize, 1, 7, 8, 15, 16, 30, 31] { for bit in [0u8, 7] {
            let mut nb = kb; nb[byte] ^= 1 << bit;
            for tok in [&t, &want] {
            let Some(k2) = mk(&nb) else { continue };
            let r = match v { 1 => Paseto::<V1, Local>::try_decrypt(tok, &PasetoSymmetricKey::<V1, Local>::from(k2), None), 2 => Paseto::<V2, Local>::try_decrypt(tok, &PasetoSymmetricKey::<V2, Local>::from(k2), None),
                              3 => Paseto::<V3, Local>::try_decrypt(tok, &PasetoSymmetricKey::<V3, Local>::from(k2), None, None), _ => Paseto::<V4, Local>::try_decrypt(tok, &PasetoSymmetricKey::<V4, Local>::from(k2), None, None) };
            if let Ok(p) = r { return wit(format!("C04 a v{v}.local token of {m:?} built under key K=[3,10,17,..] decrypts under K with bit {bit} of byte {byte} flipped, both keys built with {what} -> {p:?}")); } } } } }
    }}}
    // Ed25519 keys through the by-reference constructors
    let (kp, pk) = R::ed_keypair(9);
    let sk_forms: Vec<(&str, Key<64>)> = vec![("Key::from([u8; 64])", Key::<64>::from(kp)), ("Key::from(&[u8; 64])", Key::<64>::from(&kp)), ("Key::from(&[u8])", Key::<64>::from(&kp[..]))];
    for (what, sk) in &sk_forms { let mut b = Paseto::<V4, Public>::builder(); b.set_payload(Payload::from("{}"));
        match b.try_sign(&PasetoAsymmetricPrivateKey::<V4, Public>::from(sk)) {
            Err(e) => { if pid != "C04" { return wit(format!("{pid} v4.public signing under a private key built with {what} fails: {e:?}")); } }
            Ok(t) => { for (pwhat, pkk) in [("Key::from([u8; 32])", Key::<32>::from(pk)), ("Key::from(&[u8; 32])", Key::<32>::from(&pk)), ("Key::from(&[u8])", Key::<32>::from(&pk[..]))] {
                if pid != "C04" && Paseto::<V4, Public>::try_verify(&t, &PasetoAsymmetricPublicKey::<V4, Public>::from(&pkk), None, None).is_err() { return wit(format!("{pid} v4.public token signed with a key built with {what} does not verify under the matching public key built with {pwhat}")); }
                if pid == "C04" { for byte in [0usize, 31] { let mut nb = pk; nb[byte] ^= 1; let nk = Key::<32>::from(&nb);
                    if Paseto::<V4, Public>::try_verify(&t, &PasetoAsymmetricPublicKey::<V4, Public>::from(&nk), None, None).is_ok() { return wit(format!("C04 v4.public token verifies under the signer's public key with bit 0 of byte {byte} flipped (built with Key::from(&[u8; 32]))")); } } } } } } }
}
// a parser's verdict depends on its configuration and the token only, not on what it parsed before: every configuration sequence
// (up to three steps) is run once with a parse after every step and once on a fresh parser; the final verdicts must agree (C15: expected
// claims incl. the bulk form, C16: validators incl. the bulk form)
#[cfg(feature = "main_set")]
fn parser_history(pid: &str) {
    use std::collections::HashMap; use std::sync::atomic::{AtomicUsize, Ordering};
    static RUNS: AtomicUsize = AtomicUsize::new(0);
    let (t, key) = v4tok("{\"aud\":\"x\",\"n\":5,\"role\":\"admin\"}"); let t = lk(&t);
    type G = GenericParser<'static, 'static, V4, Local>;
    fn rej(_k: &str, _v: &serde_json::Value) -> Result<(), PasetoClaimError> { RUNS.fetch_add(1, Ordering::SeqCst); Err(PasetoClaimError::CustomValidation("x".into())) }
    fn acc(_k: &str, _v: &serde_json::Value) -> Result<(), PasetoClaimError> { RUNS.fetch_add(1, Ordering::SeqCst); Ok(()) }
    fn bulk(k: &str, v: serde_json::Value) -> HashMap<String, Box<dyn erased_serde::Serialize>> { let mut m: HashMap<String, Box<dyn erased_serde::Serialize>> = HashMap::new(); m.insert(k.to_string(), Box::new(CustomClaim::try_from((k.to_string(), v)).unwrap())); m }   // the bulk form takes claim objects, as check_claim stores them
    let claim_steps: Vec<(&str, Box<dyn Fn(&mut G)>)> = vec![
        ("check_claim(aud=x)", Box::new(|p: &mut G| { p.check_claim(AudienceClaim::from("x")); })),
        ("check_claim(aud=y)", Box::new(|p: &mut G| { p.check_claim(AudienceClaim::from("y")); })),
        ("check_claim(n=5)", Box::new(|p: &mut G| { p.check_claim(CustomClaim::try_from(("n", 5)).unwrap()); })),
        ("extend_check_claims({n: 5})", Box::new(|p: &mut G| { p.extend_check_claims(bulk("n", serde_json::json!(5))); })),
        ("extend_check_claims({n: 6})", Box::new(|p: &mut G| { p.extend_check_claims(bulk("n", serde_json::json!(6))); })),
        ("extend_check_claims({role: \"user\"})", Box::new(|p: &mut G| { p.extend_check_claims(bulk("role", serde_json::json!("user"))); })),
        ("extend_check_claims({missing: 1})", Box::new(|p: &mut G| { p.extend_check_claims(bulk("missing", serde_json::json!(1))); })),
    ];
    let val_steps: Vec<(&str, Box<dyn Fn(&mut G)>)> = vec![
        ("validate_claim(n, rejecting)", Box::new(|p: &mut G| { p.validate_claim(CustomClaim::try_from("n").unwrap(), &rej); })),
        ("validate_claim(n, accepting)", Box::new(|p: &mut G| { p.validate_claim(CustomClaim::try_from("n").unwrap(), &acc); })),
        ("validate_claim(aud, accepting)", Box::new(|p: &mut G| { p.validate_claim(AudienceClaim::from("x"), &acc); })),
        ("extend_validation_claims({role: rejecting})", Box::new(|p: &mut G| { let mut m: ValidatorMap = HashMap::new(); m.insert("role".to_string(), Box::new(rej)); p.extend_validation_claims(m); })),
        ("extend_validation_claims({role: accepting})", Box::new(|p: &mut G| { let mut m: ValidatorMap = HashMap::new(); m.insert("role".to_string(), Box::new(acc)); p.extend_validation_claims(m); })),
        ("extend_validation_claims({absent: rejecting})", Box::new(|p: &mut G| { let mut m: ValidatorMap = HashMap::new(); m.insert("absent".to_string(), Box::new(rej)); p.extend_validation_claims(m); })),
        ("check_claim(aud=x)", Box::new(|p: &mut G| { p.check_claim(AudienceClaim::from("x")); })),
    ];
    let steps = if pid == "C15" { &claim_steps } else { &val_steps };
    let n = steps.len();
    for len in 1..=3u32 { for code in 0..n.pow(len) {
        let mut idx = Vec::new(); let mut c = code; for _ in 0..len { idx.push(c % n); c /= n; }
        let mut a = G::default(); let _ = a.parse(t, key);
        for &i in &idx { (steps[i].1)(&mut a); let _ = a.parse(t, key); }
        let mut b = G::default(); for &i in &idx { (steps[i].1)(&mut b); }
        RUNS.store(0, Ordering::SeqCst); let ra = a.parse(t, key).map_err(|e| format!("{e:?}")); let runs_a = RUNS.swap(0, Ordering::SeqCst);
        let rb = b.parse(t, key).map_err(|e| format!("{e:?}")); let runs_b = RUNS.swap(0, Ordering::SeqCst);
        let desc: Vec<&str> = idx.iter().map(|&i| steps[i].0).collect();
        if pid == "C15" {
            // the verdict itself, from a map of the calls (the last registration of a key wins): accepted iff every expected member equals the payload's
            let payload = serde_json::json!({"aud": "x", "n": 5, "role": "admin"});
            let meta = [("aud", serde_json::json!("x")), ("aud", serde_json::json!("y")), ("n", serde_json::json!(5)), ("n", serde_json::json!(5)), ("n", serde_json::json!(6)), ("role", serde_json::json!("user")), ("missing", serde_json::json!(1))];
            let mut model: std::collections::BTreeMap<&str, serde_json::Value> = Default::default(); for &i in &idx { model.insert(meta[i].0, meta[i].1.clone()); }
            let want = model.iter().all(|(k, v)| payload.get(*k) == Some(v));
            if rb.is_ok() != want { return wit(format!("C15 a fresh GenericParser configured with {} on payload {payload}: parse gives {:?}, but the expected claims (last registration of a key wins) are {:?}, so it must {}", desc.join(", "), rb.map(|_| "Ok"), model, if want { "accept" } else { "reject" })); }
        }
        if ra.is_ok() != rb.is_ok() || (pid == "C16" && ra.is_ok() && runs_a != runs_b) {
            return wit(format!("{pid} GenericParser configured with {} on payload {{aud:x, n:5, role:admin}}: a fresh parser gives {:?} ({runs_b} validator call(s)); the same configuration applied to a parser that parsed the token after every step gives {:?} ({runs_a} validator call(s))", desc.join(", "), rb.map(|_| "Ok"), ra.map(|_| "Ok"))); }
    }}
}
#[cfg(feature = "main_set")]
fn footer_rebinding(pid: &str) {
    // the footer is bound by the authentication tag, not only compared as text: a rewritten or stripped segment fails even when the caller expects exactly what the token now shows
    for v in 1..=4u8 { for (fb, fnew) in [("ft", Some("other")), ("ft", None), ("", Some("added")), ("a-longer-footer-value", Some("a-longer-footer-valuf"))] {
        let fbo = if fb.is_empty() { None } else { Some(fb.to_string()) };
        if let Ok(t) = local::enc(v, 1, 2, "{\"a\":1}", &fbo, &None, false) { let seg: Vec<&str> = t.split('.').collect(); let base = seg[..3].join(".");
            let t2 = match fnew { Some(n) => format!("{base}.{}", R::b64(n.as_bytes())), None => base.clone() };
            if local::dec(v, 1, &t2, &fnew.map(|x| x.to_string()), &None).is_ok() { return wit(format!("{pid} v{v}.local token built with footer {fb:?}: footer segment rewritten to {fnew:?} and presented with expected footer {fnew:?} is accepted (the footer is not covered by the authentication tag)")); } } } }
    { let (kp, pk) = R::ed_keypair(9); let k64 = lkv(Key::<64>::from(kp)); let k32 = lkv(Key::<32>::from(pk));
      for (fb, fnew) in [("ft", Some("other")), ("ft", None), ("", Some("added"))] { let mut b = Paseto::<V4, Public>::builder(); b.set_payload(Payload::from("{}")); if !fb.is_empty() { b.set_footer(Footer::from(fb)); }
        if let Ok(t) = b.try_sign(&PasetoAsymmetricPrivateKey::<V4, Public>::from(k64)) { let seg: Vec<&str> = t.split('.').collect(); let base = seg[..3].join("."); let t2 = match fnew { Some(n) => format!("{base}.{}", R::b64(n.as_bytes())), None => base.clone() };
            if Paseto::<V4, Public>::try_verify(&t2, &PasetoAsymmetricPublicKey::<V4, Public>::from(k32), fnew.map(Footer::from), None).is_ok() { return wit(format!("{pid} v4.public token built with footer {fb:?}: segment rewritten to {fnew:?} and presented with expected footer {fnew:?} is accepted")); } }
        let mut b = Paseto::<V2, Public>::builder(); b.set_payload(Payload::from("{}")); if !fb.is_empty() { b.set_footer(Footer::from(fb)); }
        if let Ok(t) = b.try_sign(&PasetoAsymmetricPrivateKey::<V2, Public>::from(k64)) { let seg: Vec<&str> = t.split('.').collect(); let base = seg[..3].join("."); let t2 = match fnew { Some(n) => format!("{base}.{}", R::b64(n.as_bytes())), None => base.clone() };
            if Paseto::<V2, Public>::try_verify(&t2, &PasetoAsymmetricPublicKey::<V2, Public>::from(k32), fnew.map(Footer::from)).is_ok() { return wit(format!("{pid} v2.public token built with footer {fb:?}: segment rewritten to {fnew:?} and presented with expected footer {fnew:?} is accepted")); } } } }
}
#[cfg(feature = "main_set")]
fn layer_setter_orders(pid: &str) {
    // core builder: payload, footer and assertion set in every order give the same token
    { let key = PasetoSymmetricKey::<V4, Local>::from(key32(1)); let n = Key::<32>::from([2u8; 32]); let want = R::v4l(&{ let mut k = [1u8; 32]; k[0] = 7; k }, &[2; 32], b"{\"a\":1}", b"ft", b"ia");
      for order in [[0u8, 1, 2], [0, 2, 1], [1, 0, 2], [1, 2, 0], [2, 0, 1], [2, 1, 0]] { let mut b = Paseto::<V4, Local>::builder();
        for o in order { match o { 0 => { b.set_payload(Payload::from("{\"a\":1}")); } 1 => { b.set_footer(Footer::from("ft")); } _ => { b.set_implicit_assertion(ImplicitAssertion::from("ia")); } } }
        match b.try_encrypt(&key, &PasetoNonce::<V4, Local>::from(&n)) { Ok(t) if t == want => {}, o => return wit(format!("{pid} core v4.local builder with set_payload / set_footer / set_implicit_assertion called in order {order:?} (0=payload,1=footer,2=assertion) gives {o:?}, expected {want}")) } } }
    // footer / assertion given to builders and parsers in every order, replaced, and cleared again
    let key = lkv(PasetoSymmetricKey::<V4, Local>::from(key32(1)));
    for (bf, bi) in [(Some("F"), Some("A")), (Some("F"), None), (None, Some("A")), (None, None)] {
        let mut b = GenericBuilder::<V4, Local>::default(); b.set_claim(AudienceClaim::from("a"));
        if let Some(f) = bf { b.set_footer(Footer::from(f)); } if let Some(i) = bi { b.set_implicit_assertion(ImplicitAssertion::from(i)); }
        let t = match b.try_encrypt(key) { Ok(t) => lk(&t), Err(_) => continue };
        for (pf, pi) in [(Some("F"), Some("A")), (Some("F"), None), (None, Some("A")), (None, None), (Some("G"), Some("A")), (Some("F"), Some("B"))] { for order in 0..2 {
            let same = bf.unwrap_or("") == pf.unwrap_or("") && bi.unwrap_or("") == pi.unwrap_or("");
            let mut g = GenericParser::<V4, Local>::default(); let mut p = PasetoParser::<V4, Local>::default();
            if order == 0 { if let Some(f) = pf { g.set_footer(Footer::from(f)); p.set_footer(Footer::from(f)); } if let Some(i) = pi { g.set_implicit_assertion(ImplicitAssertion::from(i)); p.set_implicit_assertion(ImplicitAssertion::from(i)); } }
            else { if let Some(i) = pi { g.set_implicit_assertion(ImplicitAssertion::from(i)); p.set_implicit_assertion(ImplicitAssertion::from(i)); } if let Some(f) = pf { g.set_footer(Footer::from(f)); p.set_footer(Footer::from(f)); } }
            let rg = g.parse(t, key).is_ok(); let rp = p.parse(t, key).is_ok();
            if rg != same || rp != same { return wit(format!("{pid} token built with footer {bf:?} / assertion {bi:?}; parser given footer {pf:?} / assertion {pi:?} ({}): GenericParser accepts = {rg}, PasetoParser accepts = {rp}, must be {same}", if order == 0 { "footer set first" } else { "assertion set first" })); } } }
    }
    // a setter called again replaces the earlier value, including with the empty value
    { let mut g = GenericParser::<V4, Local>::default(); g.set_footer(Footer::from("old")); g.set_footer(Footer::from(""));
      let mut b = GenericBuilder::<V4, Local>::default(); b.set_claim(AudienceClaim::from("a")); if let Ok(t) = b.try_encrypt(key) { if g.parse(lk(&t), key).is_err() { return wit(format!("{pid} GenericParser: set_footer(\"old\") then set_footer(\"\") still expects the old footer (a footer-less token is rejected)")); } }
      let mut pb = PasetoBuilder::<V4, Local>::default(); pb.set_footer(Footer::from("old")); pb.set_footer(Footer::from(""));
      if let Ok(t) = pb.build(key) { if t.split('.').count() != 3 || PasetoParser::<V4, Local>::default().parse(lk(&t), key).is_err() { return wit(format!("{pid} PasetoBuilder: set_footer(\"old\") then set_footer(\"\") still emits / authenticates the old footer: {t}")); } }
      let mut gb = GenericBuilder::<V4, Local>::default(); gb.set_claim(AudienceClaim::from("a")); gb.set_footer(Footer::from("old")); gb.set_footer(Footer::from("new"));
      if let Ok(t) = gb.try_encrypt(key) { let mut p = GenericParser::<V4, Local>::default(); p.set_footer(Footer::from("new")); if p.parse(lk(&t), key).is_err() { return wit(format!("{pid} GenericBuilder: the second set_footer does not replace the first")); } }
      let mut g2 = GenericParser::<V4, Local>::default(); g2.set_implicit_assertion(ImplicitAssertion::from("old")); g2.set_implicit_assertion(ImplicitAssertion::from(""));
      let mut b2 = GenericBuilder::<V4, Local>::default(); b2.set_claim(AudienceClaim::from("a")); if let Ok(t) = b2.try_encrypt(key) { if g2.parse(lk(&t), key).is_err() { return wit(format!("{pid} GenericParser: set_implicit_assertion(\"old\") then (\"\") still expects the old assertion")); } } }
    // one parser object whose expectation is changed between two parses of the same token follows the new expectation (local and public)
    { let mut gb = GenericBuilder::<V4, Local>::default(); gb.set_claim(AudienceClaim::from("a")); gb.set_footer(Footer::from("F")); gb.set_implicit_assertion(ImplicitAssertion::from("A"));
      if let Ok(t) = gb.try_encrypt(key) { let t = lk(&t);
        let mut g = GenericParser::<V4, Local>::default(); g.set_footer(Footer::from("F")); g.set_implicit_assertion(ImplicitAssertion::from("A")); let mut p = PasetoParser::<V4, Local>::default(); p.set_footer(Footer::from("F")); p.set_implicit_assertion(ImplicitAssertion::from("A"));
        let a = (g.parse(t, key).is_ok(), p.parse(t, key).is_ok()); g.set_footer(Footer::from("G")); p.set_footer(Footer::from("G")); let b = (g.parse(t, key).is_ok(), p.parse(t, key).is_ok());
        g.set_footer(Footer::from("F")); p.set_footer(Footer::from("F")); g.set_implicit_assertion(ImplicitAssertion::from("B")); p.set_implicit_assertion(ImplicitAssertion::from("B")); let c = (g.parse(t, key).is_ok(), p.parse(t, key).is_ok());
        if a != (true, true) || b != (false, false) || c != (false, false) { return wit(format!("{pid} one local parser (Generic, Paseto): parse with the right footer/assertion = {a:?}, after set_footer(other) = {b:?}, after set_implicit_assertion(other) = {c:?}; must be (true,true), (false,false), (false,false)")); } }
      let (kp, pk) = R::ed_keypair(9); let k64 = lkv(Key::<64>::from(kp)); let k32 = lkv(Key::<32>::from(pk)); let pkk = lkv(PasetoAsymmetricPublicKey::<V4, Public>::from(k32));
      let mut gb = GenericBuilder::<V4, Public>::default(); gb.set_claim(AudienceClaim::from("a")); gb.set_footer(Footer::from("F")); gb.set_implicit_assertion(ImplicitAssertion::from("A"));
      if let Ok(t) = gb.try_sign(&PasetoAsymmetricPrivateKey::<V4, Public>::from(k64)) { let t = lk(&t);
        let mut g = GenericParser::<V4, Public>::default(); g.set_footer(Footer::from("F")); g.set_implicit_assertion(ImplicitAssertion::from("A")); let mut p = PasetoParser::<V4, Public>::default(); p.set_footer(Footer::from("F")); p.set_implicit_assertion(ImplicitAssertion::from("A"));
        let a = (g.parse(t, pkk).is_ok(), p.parse(t, pkk).is_ok()); g.set_footer(Footer::from("G")); p.set_footer(Footer::from("G")); let b = (g.parse(t, pkk).is_ok(), p.parse(t, pkk).is_ok());
        g.set_footer(Footer::from("F")); p.set_footer(Footer::from("F")); g.set_implicit_assertion(ImplicitAssertion::from("B")); p.set_implicit_assertion(ImplicitAssertion::from("B")); let c = (g.parse(t, pkk).is_ok(), p.parse(t, pkk).is_ok());
        g.set_footer(Footer::from("")); p.set_footer(Footer::from("")); let d = (g.parse(t, pkk).is_ok(), p.parse(t, pkk).is_ok());
        if a != (true, true) || b != (false, false) || c != (false, false) || d != (false, false) { return wit(format!("{pid} one public parser (Generic, Paseto): parse with the right footer/assertion = {a:?}, after set_footer(other) = {b:?}, after set_implicit_assertion(other) = {c:?}, after set_footer(\"\") = {d:?}; must be (true,true) then (false,false) each time")); } } }
    // a builder used twice keeps footer and assertion
    { let mut gb = GenericBuilder::<V4, Local>::default(); gb.set_claim(AudienceClaim::from("a")); gb.set_footer(Footer::from("F")); gb.set_implicit_assertion(ImplicitAssertion::from("A"));
      let mut p = GenericParser::<V4, Local>::default(); p.set_footer(Footer::from("F")); p.set_implicit_assertion(ImplicitAssertion::from("A"));
      for round in 0..3 { match gb.try_encrypt(key) { Ok(t) => { if p.parse(lk(&t), key).is_err() { return wit(format!("{pid} GenericBuilder<V4,Local> build #{round} from one builder lost its footer or assertion: {t}")); } } Err(e) => return wit(format!("{pid} GenericBuilder build #{round} failed: {e}")) } }
      let mut pb = PasetoBuilder::<V4, Local>::default(); pb.set_footer(Footer::from("F")); pb.set_implicit_assertion(ImplicitAssertion::from("A"));
      let mut pp = PasetoParser::<V4, Local>::default(); pp.set_footer(Footer::from("F")); pp.set_implicit_assertion(ImplicitAssertion::from("A"));
      for round in 0..3 { match pb.build(key) { Ok(t) => { if pp.parse(lk(&t), key).is_err() { return wit(format!("{pid} PasetoBuilder<V4,Local> build #{round} from one builder lost its footer or assertion: {t}")); } } Err(e) => return wit(format!("{pid} PasetoBuilder build #{round} failed: {e}")) } } }
}
#[cfg(feature = "main_set")]
fn c05() {
    for v in 1..=4u8 { for f in footers() { for f2 in footers() {
        let t = match local::enc(v, 1, 2, "{\"a\":1}", &f, &None, false) { Ok(t) => t, Err(_) => continue };
        let same = fstr(&f) == fstr(&f2);
        let r = local::dec(v, 1, &t, &f2, &None);
        if r.is_ok() != same { return wit(format!("C05 v{v}.local token built with footer {:?} and presented with expected footer {:?} -> {:?} (token {t})", f, f2, r.map_err(|e| format!("{e:?}")))); }
        let seg: Vec<&str> = t.split('.').collect();
        let want = if fstr(&f).is_empty() { 3 } else { 4 };
        if seg.len() != want || (want == 4 && seg[3] != R::b64(fstr(&f).as_bytes())) { return wit(format!("C05 v{v}.local footer segment of the token for footer {:?} is not base64url(footer): {t}", f)); }
    }}}
    // the same matrix at the generic and batteries-included layers (local and public): accepted iff the expected footer is byte-equal; the segment is base64url(footer)
    { let fs: Vec<Option<&'static str>> = vec![None, Some(""), Some("ft"), Some("ft "), Some(" ft"), Some("ft\n"), Some("FT"), Some("kid-7"), Some("kid-7\t"), Some("{\"kid\": \"k\"}"), Some("{\"kid\":\"k\"}"), Some("{\"b\":1,\"a\":2}"), Some("{\"a\":2,\"b\":1}"), Some(" ")];
      let key = lkv(PasetoSymmetricKey::<V4, Local>::from(key32(1))); let (kp, pk) = R::ed_keypair(9); let sk = lkv(PasetoAsymmetricPrivateKey::<V4, Public>::from(lkv(Key::<64>::from(kp)))); let pkk = lkv(PasetoAsymmetricPublicKey::<V4, Public>::from(lkv(Key::<32>::from(pk))));
      for f in &fs { for layer in 0..4 {
        let t = match layer { 0 => { let mut b = GenericBuilder::<V4, Local>::default(); b.set_claim(AudienceClaim::from("a")); if let Some(f) = f { b.set_footer(Footer::from(*f)); } b.try_encrypt(key) }
                              1 => { let mut b = PasetoBuilder::<V4, Local>::default(); if let Some(f) = f { b.set_footer(Footer::from(*f)); } b.build(key) }
                              2 => { let mut b = GenericBuilder::<V4, Public>::default(); b.set_claim(AudienceClaim::from("a")); if let Some(f) = f { b.set_footer(Footer::from(*f)); } b.try_sign(sk) }
                              _ => { let mut b = PasetoBuilder::<V4, Public>::default(); if let Some(f) = f { b.set_footer(Footer::from(*f)); } b.build(sk) } };
        let name = ["GenericBuilder/GenericParser<V4,Local>", "PasetoBuilder/PasetoParser<V4,Local>", "GenericBuilder/GenericParser<V4,Public>", "PasetoBuilder/PasetoParser<V4,Public>"][layer];
        let t = match t { Ok(t) => lk(&t), Err(e) => return wit(format!("C05 {name}: build with footer {f:?} fails: {e}")) };
        let seg: Vec<&str> = t.split('.').collect(); let fb = f.unwrap_or("");
        if (fb.is_empty() && seg.len() != 3) || (!fb.is_empty() && (seg.len() != 4 || seg[3] != R::b64(fb.as_bytes()))) { return wit(format!("C05 {name}: the token built with footer {f:?} does not carry base64url(footer) as its footer segment: {t}")); }
        for f2 in &fs { let same = fb == f2.unwrap_or("");
            let ok = match layer { 0 => { let mut p = GenericParser::<V4, Local>::default(); if let Some(x) = f2 { p.set_footer(Footer::from(*x)); } p.parse(t, key).is_ok() }
                                   1 => { let mut p = PasetoParser::<V4, Local>::default(); if let Some(x) = f2 { p.set_footer(Footer::from(*x)); } p.parse(t, key).is_ok() }
                                   2 => { let mut p = GenericParser::<V4, Public>::default(); if let Some(x) = f2 { p.set_footer(Footer::from(*x)); } p.parse(t, pkk).is_ok() }
                                   _ => { let mut p = PasetoParser::<V4, Public>::default(); if let Some(x) = f2 { p.set_footer(Footer::from(*x)); } p.parse(t, pkk).is_ok() } };
            if ok != same { return wit(format!("C05 {name}: a token built with footer {f:?}, parser expecting footer {f2:?}: accepted = {ok} (must be {same})")); } } } } }
    footer_rebinding("C05");
    // a footer must not be exchangeable for an implicit assertion of the same bytes (and vice versa)
    for v in 3..=4u8 { for x in ["X", "kid-7", "{\"a\":1}"] {
        if let Ok(t) = local::enc(v, 1, 2, "{\"a\":1}", &None, &Some(x.to_string()), false) { let t2 = format!("{t}.{}", R::b64(x.as_bytes()));
            if local::dec(v, 1, &t2, &Some(x.to_string()), &None).is_ok() { return wit(format!("C05 v{v}.local token built with NO footer and assertion {x:?}, footer segment base64url({x:?}) appended, is accepted with expected footer {x:?} and no assertion")); } }
        if let Ok(t) = local::enc(v, 1, 2, "{\"a\":1}", &Some(x.to_string()), &None, false) { let seg: Vec<&str> = t.split('.').collect(); let t2 = seg[..3].join(".");
            if local::dec(v, 1, &t2, &None, &Some(x.to_string())).is_ok() { return wit(format!("C05 v{v}.local token built with footer {x:?} and no assertion, footer segment removed, is accepted with no expected footer and assertion {x:?}")); } } } }
    layer_setter_orders("C05");
    public_tamper();
}
#[cfg(feature = "main_set")]
fn c06() {
    let ias = [None, Some("".to_string()), Some("a".to_string()), Some("{}".to_string()), Some("[]".to_string()), Some("null".to_string()), Some("ab".to_string()), Some("a ".to_string()), Some(" a".to_string()), Some("a\n".to_string()), Some(" ".to_string()), Some("tenant-id:1001".repeat(10)), Some(format!("{}2", &"tenant-id:1001".repeat(10)[..139])), Some("{\"x\":1}".to_string()), Some("z".repeat(200))];
    for v in 3..=4u8 { for i in ias.iter().take(9) { for i2 in ias.iter().take(9) { let t = match local::enc(v, 1, 2, "", &None, i, false) { Ok(t) => t, Err(_) => continue };
        let same = i.as_deref().unwrap_or("") == i2.as_deref().unwrap_or(""); let r = local::dec(v, 1, &t, &None, i2);
        if r.is_ok() != same { return wit(format!("C06 v{v}.local token of the EMPTY message built with assertion {:?} presented with {:?} -> {:?}", i, i2, r.map_err(|e| format!("{e:?}")))); } } } }
    for v in 3..=4u8 { for i in &ias { for i2 in &ias { for f in [None, Some("ft".to_string())] {
        let t = match local::enc(v, 1, 2, "{\"a\":1}", &f, i, false) { Ok(t) => t, Err(_) => continue };
        let same = i.as_deref().unwrap_or("") == i2.as_deref().unwrap_or("");
        let r = local::dec(v, 1, &t, &f, i2);
        if r.is_ok() != same { return wit(format!("C06 v{v}.local token built with assertion {:?} presented with {:?} -> {:?}", i, i2, r.map_err(|e| format!("{e:?}")))); }
        let t0 = local::enc(v, 1, 2, "{\"a\":1}", &f, &None, false).unwrap_or_default();
        if t.len() != t0.len() { return wit(format!("C06 v{v}.local token length depends on the implicit assertion {:?}: {} vs {}", i, t.len(), t0.len())); }
        if let Some(ix) = i { if ix.len() > 3 && t.contains(&R::b64(ix.as_bytes())) { return wit(format!("C06 v{v}.local token contains the assertion bytes")); } }
    }}}}
    // a footer must not be exchangeable for an implicit assertion of the same bytes (and vice versa)
    for v in 3..=4u8 { for x in ["X", "kid-7", "{\"a\":1}"] {
        if let Ok(t) = local::enc(v, 1, 2, "{\"a\":1}", &None, &Some(x.to_string()), false) { let t2 = format!("{t}.{}", R::b64(x.as_bytes()));
            if local::dec(v, 1, &t2, &Some(x.to_string()), &None).is_ok() { return wit(format!("C06 v{v}.local token built with NO footer and assertion {x:?}, footer segment base64url({x:?}) appended, is accepted with expected footer {x:?} and no assertion")); } }
        if let Ok(t) = local::enc(v, 1, 2, "{\"a\":1}", &Some(x.to_string()), &None, false) { let seg: Vec<&str> = t.split('.').collect(); let t2 = seg[..3].join(".");
            if local::dec(v, 1, &t2, &None, &Some(x.to_string())).is_ok() { return wit(format!("C06 v{v}.local token built with footer {x:?} and no assertion, footer segment removed, is accepted with no expected footer and assertion {x:?}")); } } } }
    // (footer, assertion) boundary shift
    for v in 3..=4u8 { let t = local::enc(v, 1, 2, "{}", &Some("ab".into()), &Some("cd".into()), false).unwrap_or_default();
        if local::dec(v, 1, &t, &Some("abc".into()), &Some("d".into())).is_ok() { return wit(format!("C06 v{v}.local boundary shift between footer and assertion accepted")); } }
    { let (kp, pk) = R::ed_keypair(9); let sk = PasetoAsymmetricPrivateKey::<V4, Public>::from(lkv(Key::<64>::from(kp))); let pkk = PasetoAsymmetricPublicKey::<V4, Public>::from(lkv(Key::<32>::from(pk)));
      for l in 1..=1100usize { let a = lk(&"a".repeat(l)); let mut bb = "a".repeat(l); bb.pop(); bb.push('b'); let bb = lk(&bb);
        let mut b = Paseto::<V4, Public>::builder(); b.set_payload(Payload::from("{\"a\":1}")); b.set_implicit_assertion(ImplicitAssertion::from(a));
        if let Ok(t) = b.try_sign(&sk) { if Paseto::<V4, Public>::try_verify(&t, &pkk, None, Some(ImplicitAssertion::from(bb))).is_ok() { return wit(format!("C06 v4.public token built with a {l}-byte assertion verifies with another assertion of the same length (last byte differs)")); }
            if Paseto::<V4, Public>::try_verify(&t, &pkk, None, Some(ImplicitAssertion::from(a))).is_err() { return wit(format!("C06 v4.public token built with a {l}-byte assertion does not verify with that assertion")); } } } }
    for v in 3..=4u8 { for l in 0..=1100usize { let a = "a".repeat(l); let mut b = "a".repeat(l); if l > 0 { b.pop(); b.push('b'); }
        if let Ok(t) = local::enc(v, 1, 2, "{\"a\":1}", &None, &Some(a.clone()), false) {
            if l > 0 && local::dec(v, 1, &t, &None, &Some(b)).is_ok() { return wit(format!("C06 v{v}.local token built with a {l}-byte assertion is accepted with another assertion of the same length (last byte differs)")); }
            if local::dec(v, 1, &t, &None, &Some(format!("{a}x"))).is_ok() || (l > 0 && local::dec(v, 1, &t, &None, &Some(a[..l - 1].to_string())).is_ok()) { return wit(format!("C06 v{v}.local token built with a {l}-byte assertion is accepted with an assertion one byte longer / shorter")); } } } }
    // v4.public at the core layer: footer absent or present x assertion pairs, both call forms of "no footer"
    { let (kp, pk) = R::ed_keypair(9); let k64 = lkv(Key::<64>::from(kp)); let k32 = lkv(Key::<32>::from(pk)); let sk = PasetoAsymmetricPrivateKey::<V4, Public>::from(k64); let pkk = PasetoAsymmetricPublicKey::<V4, Public>::from(k32);
      for f in [None, Some("ft")] { for i in ias.iter().take(10) { for i2 in ias.iter().take(10) {
        let mut b = Paseto::<V4, Public>::builder(); b.set_payload(Payload::from("{\"a\":1}")); if let Some(f) = f { b.set_footer(Footer::from(f)); } if let Some(i) = i { b.set_implicit_assertion(ImplicitAssertion::from(lk(i))); }
        let t = match b.try_sign(&sk) { Ok(t) => t, Err(_) => continue };
        let same = i.as_deref().unwrap_or("") == i2.as_deref().unwrap_or("");
        let r = Paseto::<V4, Public>::try_verify(&t, &pkk, f.map(Footer::from), i2.as_deref().map(|x| ImplicitAssertion::from(lk(x))));
        if r.is_ok() != same { return wit(format!("C06 v4.public token built with footer {f:?} and assertion {i:?}, verified with footer {f:?} and assertion {i2:?} -> {:?} (must {})", r.map_err(|e| format!("{e:?}")), if same { "succeed" } else { "fail" })); } } } } }
    // generic and batteries-included layers (local and public): accepted iff the assertion is byte-equal (absent == empty only); the LAST assertion set
    // on a builder / parser is the one in force; a parser re-configured after a parse judges the same token anew
    { let asr: Vec<Option<&'static str>> = vec![None, Some(""), Some("ia"), Some(" "), Some("ia "), Some(" ia"), Some("\t"), Some("IA"), Some("{}")];
      let key = lkv(PasetoSymmetricKey::<V4, Local>::from(key32(1))); let (kp, pk) = R::ed_keypair(9); let sk = lkv(PasetoAsymmetricPrivateKey::<V4, Public>::from(lkv(Key::<64>::from(kp)))); let pkk = lkv(PasetoAsymmetricPublicKey::<V4, Public>::from(lkv(Key::<32>::from(pk))));
      let names = ["GenericBuilder/GenericParser<V4,Local>", "PasetoBuilder/PasetoParser<V4,Local>", "GenericBuilder/GenericParser<V4,Public>", "PasetoBuilder/PasetoParser<V4,Public>"];
      for layer in 0..4 { for first in [None, Some("first")] { for i in &asr {
        macro_rules! build { () => { match layer { 0 => { let mut b = GenericBuilder::<V4, Local>::default(); b.set_claim(AudienceClaim::from("a")); if let Some(x) = first { b.set_implicit_assertion(ImplicitAssertion::from(x)); } if let Some(x) = i { b.set_implicit_assertion(ImplicitAssertion::from(*x)); } b.try_encrypt(key) }
            1 => { let mut b = PasetoBuilder::<V4, Local>::default(); if let Some(x) = first { b.set_implicit_assertion(ImplicitAssertion::from(x)); } if let Some(x) = i { b.set_implicit_assertion(ImplicitAssertion::from(*x)); } b.build(key) }
            2 => { let mut b = GenericBuilder::<V4, Public>::default(); b.set_claim(AudienceClaim::from("a")); if let Some(x) = first { b.set_implicit_assertion(ImplicitAssertion::from(x)); } if let Some(x) = i { b.set_implicit_assertion(ImplicitAssertion::from(*x)); } b.try_sign(sk) }
            _ => { let mut b = PasetoBuilder::<V4, Public>::default(); if let Some(x) = first { b.set_implicit_assertion(ImplicitAssertion::from(x)); } if let Some(x) = i { b.set_implicit_assertion(ImplicitAssertion::from(*x)); } b.build(sk) } } } }
        if first.is_some() && i.is_none() { continue; }
        let t = match build!() { Ok(t) => lk(&t), Err(e) => return wit(format!("C06 {}: build with assertion {i:?} fails: {e}", names[layer])) };
        let bound = i.unwrap_or("");
        for i2 in &asr { let same = bound == i2.unwrap_or("");
            macro_rules! parse_with { ($pre:expr) => { match layer { 0 => { let mut p = GenericParser::<V4, Local>::default(); if let Some(x) = $pre { p.set_implicit_assertion(ImplicitAssertion::from(x)); let _ = p.parse(t, key); } if let Some(x) = i2 { p.set_implicit_assertion(ImplicitAssertion::from(*x)); } p.parse(t, key).is_ok() }
                1 => { let mut p = PasetoParser::<V4, Local>::default(); if let Some(x) = $pre { p.set_implicit_assertion(ImplicitAssertion::from(x)); let _ = p.parse(t, key); } if let Some(x) = i2 { p.set_implicit_assertion(ImplicitAssertion::from(*x)); } p.parse(t, key).is_ok() }
                2 => { let mut p = GenericParser::<V4, Public>::default(); if let Some(x) = $pre { p.set_implicit_assertion(ImplicitAssertion::from(x)); let _ = p.parse(t, pkk); } if let Some(x) = i2 { p.set_implicit_assertion(ImplicitAssertion::from(*x)); } p.parse(t, pkk).is_ok() }
                _ => { let mut p = PasetoParser::<V4, Public>::default(); if let Some(x) = $pre { p.set_implicit_assertion(ImplicitAssertion::from(x)); let _ = p.parse(t, pkk); } if let Some(x) = i2 { p.set_implicit_assertion(ImplicitAssertion::from(*x)); } p.parse(t, pkk).is_ok() } } } }
            let ok = parse_with!(None::<&'static str>);
            if ok != same { return wit(format!("C06 {}: a token built with assertion {i:?}{}, parser asserting {i2:?}: accepted = {ok} (must be {same})", names[layer], if first.is_some() { " (set after an earlier \"first\")" } else { "" })); }
            if i2.is_some() && first.is_none() { let pre = if bound.is_empty() { None } else { Some(bound) };
                let ok2 = parse_with!(pre); if ok2 != same { return wit(format!("C06 {}: one parser first parses a token under its own assertion {i:?}, is then given assertion {i2:?} and parses the same token again: accepted = {ok2} (must be {same})", names[layer])); } } } } } } }
    layers_roundtrip(); layer_setter_orders("C06");
    { let key = PasetoSymmetricKey::<V4, Local>::from(key32(1)); let n = Key::<32>::from([2u8; 32]); let mut b = Paseto::<V4, Local>::builder(); b.set_payload(Payload::from("{}")); b.set_implicit_assertion(ImplicitAssertion::from("A1")); b.set_implicit_assertion(ImplicitAssertion::from("A2"));
      if let Ok(t) = b.try_encrypt(&key, &PasetoNonce::<V4, Local>::from(&n)) { let with = |a: &'static str| Paseto::<V4, Local>::try_decrypt(&t, &key, None, Some(ImplicitAssertion::from(a))).is_ok();
        if !with("A2") || with("A1") { return wit(format!("C06 core v4.local builder: set_implicit_assertion(A1) then set_implicit_assertion(A2): the token is accepted with A2 = {}, with A1 = {} (must be true, false)", with("A2"), with("A1"))); } } }
    // second build from the same core builder keeps the assertion
    for v in 3..=4u8 { if let Ok(t) = local::enc(v, 1, 2, "{}", &None, &Some("ia".into()), true) { if local::dec(v, 1, &t, &None, &Some("ia".into())).is_err() { return wit(format!("C06 v{v}.local: second try_encrypt from one builder lost the implicit assertion (token {t})")); } } }
}
#[cfg(feature = "main_set")]
fn c07() {
    // X token presented to Y, verbatim and with rewritten header; all local pairs share the key bytes, v2/v4 public share key bytes
    let lens: Vec<String> = vec!["".into(), "x".repeat(16), "x".repeat(24), "x".repeat(40), "{\"a\":1}".into()];
    for x in 1..=4u8 { for y in 1..=4u8 { if x == y { continue; } for m in &lens {
        let t = match local::enc(x, 1, 2, m, &None, &None, false) { Ok(t) => t, Err(_) => continue };
        let rew = t.replacen(&format!("v{x}.local."), &format!("v{y}.local."), 1);
        for (how, tt) in [("verbatim", t.clone()), ("header rewritten", rew)] {
            if let Ok(p) = local::dec(y, 1, &tt, &None, &None) { return wit(format!("C07 v{x}.local token (message len {}) presented {how} to v{y}.local is accepted -> {p:?}: {tt}", m.len())); }
        }
    }}}
    // a token whose header names another protocol must be rejected even when everything else is authentic for the callee
    for y in 1..=4u8 { for f in [None, Some("ft".to_string())] { if let Ok(t) = local::enc(y, 1, 2, "{\"a\":1}", &f, &None, false) {
        for other in ["v1.local.", "v2.local.", "v3.local.", "v4.local.", "v1.public.", "v2.public.", "v3.public.", "v4.public.", "v4.loca1.", "v5.local."] {
            let own = format!("v{y}.local."); if other == own { continue; }
            let tt = t.replacen(&own, other, 1);
            if let Ok(p) = local::dec(y, 1, &tt, &f, &None) { return wit(format!("C07 authentic v{y}.local token (footer {f:?}) relabelled {other:?} is accepted by v{y}.local -> {p:?}: {tt}")); } } } } }
    let (kp, pk) = R::ed_keypair(9); let k64 = lkv(Key::<64>::from(kp)); let k32 = lkv(Key::<32>::from(pk));
    for f in [None, Some("ft")] { let mut b = Paseto::<V4, Public>::builder(); b.set_payload(Payload::from("{}")); if let Some(f) = f { b.set_footer(Footer::from(f)); }
        if let Ok(t) = b.try_sign(&PasetoAsymmetricPrivateKey::<V4, Public>::from(k64)) { for other in ["v2.public.", "v4.local.", "v1.public.", "v3.public."] { let tt = t.replacen("v4.public.", other, 1);
            if Paseto::<V4, Public>::try_verify(&tt, &PasetoAsymmetricPublicKey::<V4, Public>::from(k32), f.map(Footer::from), None).is_ok() { return wit(format!("C07 authentic v4.public token (footer {f:?}) relabelled {other:?} is accepted by v4.public: {tt}")); } } } }
    for m in ["", "{\"a\":1}", &"x".repeat(24)] {
        let mut b = Paseto::<V2, Public>::builder(); b.set_payload(Payload::from(m));
        if let Ok(t2) = b.try_sign(&PasetoAsymmetricPrivateKey::<V2, Public>::from(k64)) {
            let _ = Paseto::<V2, Public>::try_verify(&t2, &PasetoAsymmetricPublicKey::<V2, Public>::from(k32), None);
            for tt in [t2.clone(), t2.replacen("v2.public.", "v4.public.", 1)] { if Paseto::<V4, Public>::try_verify(&tt, &PasetoAsymmetricPublicKey::<V4, Public>::from(k32), None, None).is_ok() { return wit(format!("C07 v2.public token accepted by v4.public (same Ed25519 key bytes): {tt}")); } }
            for y in 1..=4u8 { for tt in [t2.clone(), t2.replacen("v2.public.", &format!("v{y}.local."), 1)] { if let Ok(p) = local::dec(y, 1, &tt, &None, &None) { return wit(format!("C07 v2.public token (message len {}) accepted by v{y}.local -> {p:?}: {tt}", m.len())); } } }
        }
        let mut b = Paseto::<V4, Public>::builder(); b.set_payload(Payload::from(m));
        if let Ok(t4) = b.try_sign(&PasetoAsymmetricPrivateKey::<V4, Public>::from(k64)) {
            let _ = Paseto::<V4, Public>::try_verify(&t4, &PasetoAsymmetricPublicKey::<V4, Public>::from(k32), None, None);
            for tt in [t4.clone(), t4.replacen("v4.public.", "v2.public.", 1)] { if Paseto::<V2, Public>::try_verify(&tt, &PasetoAsymmetricPublicKey::<V2, Public>::from(k32), None).is_ok() { return wit(format!("C07 v4.public token accepted by v2.public (same Ed25519 key bytes): {tt}")); } }
            for y in 1..=4u8 { for tt in [t4.clone(), t4.replacen("v4.public.", &format!("v{y}.local."), 1)] { if let Ok(p) = local::dec(y, 1, &tt, &None, &None) { return wit(format!("C07 v4.public token (message len {}) accepted by v{y}.local -> {p:?}: {tt}", m.len())); } } }
        }
    }
}
#[cfg(feature = "main_set")]
fn c08() {
    for v in 1..=4u8 { for m in msgs() { for f in footers() { for i in [None, Some("ia".to_string())] {
        if v < 3 && i.is_some() { continue; }
        let want = local::reference(v, 1, 2, &m, &f, &i);
        match local::enc(v, 1, 2, &m, &f, &i, false) {
            Ok(t) if t == want => {}
            o => return wit(format!("C08 v{v}.local token differs from the specification's algorithm for message len {} footer {:?} assertion {:?}: library {:?} spec {want}", m.len(), f, i, o)),
        }
        if let Err(e) = local::dec(v, 1, &want, &f, &i) { return wit(format!("C08 v{v}.local rejects the specification's token for message len {} footer {:?}: {e:?}", m.len(), f)); }
        if m.len() < 3 && f.is_none() { match local::enc(v, 1, 2, &m, &f, &i, true) { Ok(t) if t == want => {}, o => return wit(format!("C08 v{v}.local: the SECOND try_encrypt from one core builder with the same nonce value gives {o:?}, the specification's token is {want}")) } }
    }}}}
    for v in 1..=4u8 { for n in [4095usize, 4096, 4097, 5000, 8192, 8193, 20_000] { let m = "q".repeat(n); let want = local::reference(v, 1, 2, &m, &None, &None);
        match local::enc(v, 1, 2, &m, &None, &None, false) { Ok(t) if t == want => {}, o => return wit(format!("C08 v{v}.local token of a {n}-byte message differs from the specification's algorithm (first difference at text offset {:?})", o.ok().map(|t| t.bytes().zip(want.bytes()).position(|(a, b)| a != b)))) }
        match local::dec(v, 1, &want, &None, &None) { Ok(p) if p == m => {}, o => return wit(format!("C08 v{v}.local does not decrypt the specification's token of a {n}-byte message to that message: {:?}", o.map(|p| p.len()).map_err(|e| format!("{e:?}")))) } } }
    // public Ed25519: byte-identical (deterministic) and cross-verification
    let (kp, pk) = R::ed_keypair(9); let k64 = lkv(Key::<64>::from(kp)); let k32 = lkv(Key::<32>::from(pk));
    for m in msgs() { for f in footers().iter().take(8) { for i in [None, Some("ia")] {
        let mut b = Paseto::<V4, Public>::builder(); b.set_payload(Payload::from(m.as_str())); if let Some(f) = f { b.set_footer(Footer::from(f.as_str())); } if let Some(i) = i { b.set_implicit_assertion(ImplicitAssertion::from(i)); }
        let want = R::ed_sign(&kp, "v4.public.", m.as_bytes(), fstr(f).as_bytes(), Some(i.unwrap_or("").as_bytes()));
        for round in 0..2 { match b.try_sign(&PasetoAsymmetricPrivateKey::<V4, Public>::from(k64)) { Ok(t) if t == want => {}, o => return wit(format!("C08 v4.public token (sign #{round} from one builder) differs from the specification for message len {} footer {:?} assertion {i:?}: {:?} vs {want}", m.len(), f, o.map_err(|e| format!("{e:?}")))) } }
        if Paseto::<V4, Public>::try_verify(&want, &PasetoAsymmetricPublicKey::<V4, Public>::from(k32), f.as_deref().map(Footer::from), i.map(ImplicitAssertion::from)).is_err() { return wit(format!("C08 v4.public rejects the specification's token (message len {}, footer {:?})", m.len(), f)); }
        if i.is_none() {
            let mut b = Paseto::<V2, Public>::builder(); b.set_payload(Payload::from(m.as_str())); if let Some(f) = f { b.set_footer(Footer::from(f.as_str())); }
            let want = R::ed_sign(&kp, "v2.public.", m.as_bytes(), fstr(f).as_bytes(), None);
            match b.try_sign(&PasetoAsymmetricPrivateKey::<V2, Public>::from(k64)) { Ok(t) if t == want => {}, o => return wit(format!("C08 v2.public token differs from the specification for message len {} footer {:?}", m.len(), f)) }
        }
    }}}
    layer_setter_orders("C08");
    // reused builders at every layer: the footer (and assertion) in force is the LAST one set - incl. the empty one - and the token is the specification's for it
    { let claims_payload = "{\"aud\":\"a\"}";
      for seq in [vec!["x", ""], vec!["", "x"], vec!["x", "y"], vec!["x", "", "y"], vec!["x", "y", ""], vec![""], vec!["x", "x"]] { let last = *seq.last().unwrap();
        let want = R::ed_sign(&kp, "v4.public.", claims_payload.as_bytes(), last.as_bytes(), Some(b""));
        let mut g = GenericBuilder::<V4, Public>::default(); g.set_claim(AudienceClaim::from("a")); for f in &seq { g.set_footer(Footer::from(*f)); }
        match g.try_sign(&PasetoAsymmetricPrivateKey::<V4, Public>::from(k64)) { Ok(t) if t == want => {}, o => return wit(format!("C08 GenericBuilder<V4,Public> after set_footer calls {seq:?}: token {o:?}, the specification's token for footer {last:?} is {want}")) }
        let mut c = Paseto::<V4, Public>::builder(); c.set_payload(Payload::from(claims_payload)); for f in &seq { c.set_footer(Footer::from(*f)); }
        match c.try_sign(&PasetoAsymmetricPrivateKey::<V4, Public>::from(k64)) { Ok(t) if t == want => {}, o => return wit(format!("C08 core v4.public builder after set_footer calls {seq:?}: token {o:?}, the specification's token for footer {last:?} is {want}")) }
        let want_i = R::ed_sign(&kp, "v4.public.", claims_payload.as_bytes(), b"ft", Some(last.as_bytes()));
        let mut g = GenericBuilder::<V4, Public>::default(); g.set_claim(AudienceClaim::from("a")); g.set_footer(Footer::from("ft")); for i in &seq { g.set_implicit_assertion(ImplicitAssertion::from(*i)); }
        match g.try_sign(&PasetoAsymmetricPrivateKey::<V4, Public>::from(k64)) { Ok(t) if t == want_i => {}, o => return wit(format!("C08 GenericBuilder<V4,Public> after set_implicit_assertion calls {seq:?}: token {o:?}, the specification's token for assertion {last:?} is {want_i}")) } } }
}
fn no_panic<F: FnOnce() -> R + std::panic::UnwindSafe, R>(f: F) -> bool { catch_unwind(f).is_ok() }
#[cfg(feature = "main_set")]
fn c09() {
    std::panic::set_hook(Box::new(|_| {}));
    let mut inputs: Vec<String> = vec!["".into(), ".".into(), "..".into(), "...".into(), "....".into(), ".....".into(), "v4.local.".into(), "v4.loca\u{20ac}.AAAA".into(), "\u{20ac}\u{20ac}\u{20ac}.\u{20ac}.AAAA".into(), "v4.publi\u{e9}.AAAA".into(),
        "v4.local.AAAA.\u{20ac}".into(), "v4.local.====".into(), "v4.local.AA AA".into(), "a.b.c.d.e.f".into(), "x".repeat(1 << 20)];
    for h in ["v1.local.", "v2.local.", "v3.local.", "v4.local.", "v1.public.", "v2.public.", "v3.public.", "v4.public."] {
        for n in 0..=400usize { inputs.push(format!("{h}{}", R::b64(&vec![0u8; n]))); if n % 7 == 0 { inputs.push(format!("{h}{}.Zm9v", R::b64(&vec![255u8; n]))); } }
        for n in 401..=1300usize { inputs.push(format!("{h}{}", R::b64(&vec![0u8; n]))); }
        for n in [2040usize, 2047, 2048, 2049, 4088, 4096, 4097, 8191, 8192, 8193, 16384, 65535, 65536, 65537] { inputs.push(format!("{h}{}", R::b64(&vec![0u8; n]))); }
        for ftxt in ["{}}", "{\"kid\":\"k1\"}}", "]", "}", "{]", "[}", "{{{{{{{{{{{{{{{{{{{{{{{{{{{{{{{{{{{{{{{{", "[[[[[[[[[[[[[[[[[[[[[[[[[[[[[[[[[[[[[[[[[[[[[[[[[[[[[[[[[[[[[[[[[[[[[[[[", "{\"a\":{\"a\":{\"a\":{\"a\":{\"a\":{\"a\":1}}}}}}", "{\"a\":\"}}}}\"}", "\"", "{\"", "\u{feff}{}", "{\\", "{\"a\":\"\\\"}"] {
            inputs.push(format!("{h}{}.{}", R::b64(&vec![0u8; 100]), R::b64(ftxt.as_bytes()))); }
        inputs.push(format!("{h}{}.{}", R::b64(&vec![0u8; 100]), R::b64("{".repeat(9000).as_bytes()))); inputs.push(format!("{h}{}.{}", R::b64(&vec![0u8; 100]), "A".repeat(20000)));
    }
    let (_kp, pk) = R::ed_keypair(9);
    for s in &inputs {
        let show = if s.len() > 80 { format!("{}... (len {})", &s[..s.char_indices().nth(60).map(|x| x.0).unwrap_or(0)], s.len()) } else { s.clone() };
        let k32 = lkv(Key::<32>::from(pk)); let rsa = lkv([1u8; 300]);
        macro_rules! chk { ($what:expr, $e:expr) => { if !no_panic(AssertUnwindSafe(|| { let _ = $e; })) { return wit(format!("C09 {} panics on token {:?}", $what, show)); } } }
        chk!("Paseto::<V1,Local>::try_decrypt", Paseto::<V1, Local>::try_decrypt(s, &PasetoSymmetricKey::<V1, Local>::from(key32(1)), None));
        chk!("Paseto::<V2,Local>::try_decrypt", Paseto::<V2, Local>::try_decrypt(s, &PasetoSymmetricKey::<V2, Local>::from(key32(1)), None));
        chk!("Paseto::<V3,Local>::try_decrypt", Paseto::<V3, Local>::try_decrypt(s, &PasetoSymmetricKey::<V3, Local>::from(key32(1)), None, None));
        chk!("Paseto::<V4,Local>::try_decrypt", Paseto::<V4, Local>::try_decrypt(s, &PasetoSymmetricKey::<V4, Local>::from(key32(1)), Some(Footer::from("foo")), None));
        chk!("Paseto::<V1,Public>::try_verify", Paseto::<V1, Public>::try_verify(s, &PasetoAsymmetricPublicKey::<V1, Public>::from(&rsa[..]), None));
        chk!("Paseto::<V2,Public>::try_verify", Paseto::<V2, Public>::try_verify(s, &PasetoAsymmetricPublicKey::<V2, Public>::from(k32), None));
        chk!("Paseto::<V4,Public>::try_verify", Paseto::<V4, Public>::try_verify(s, &PasetoAsymmetricPublicKey::<V4, Public>::from(k32), None, None));
        chk!("GenericParser::<V4,Local>::parse", GenericParser::<V4, Local>::default().parse(lk(s), lkv(PasetoSymmetricKey::<V4, Local>::from(key32(1)))));
        chk!("PasetoParser::<V4,Local>::parse", PasetoParser::<V4, Local>::default().parse(lk(s), lkv(PasetoSymmetricKey::<V4, Local>::from(key32(1)))));
        chk!("PasetoParser::<V3,Local>::parse", PasetoParser::<V3, Local>::default().parse(lk(s), lkv(PasetoSymmetricKey::<V3, Local>::from(key32(1)))));
        chk!("PasetoParser::<V1,Local>::parse", PasetoParser::<V1, Local>::default().parse(lk(s), lkv(PasetoSymmetricKey::<V1, Local>::from(key32(1)))));
        chk!("PasetoParser::<V2,Local>::parse", PasetoParser::<V2, Local>::default().parse(lk(s), lkv(PasetoSymmetricKey::<V2, Local>::from(key32(1)))));
        chk!("PasetoParser::<V4,Public>::parse", PasetoParser::<V4, Public>::default().parse(lk(s), lkv(PasetoAsymmetricPublicKey::<V4, Public>::from(k32))));
        chk!("PasetoParser::<V2,Public>::parse", PasetoParser::<V2, Public>::default().parse(lk(s), lkv(PasetoAsymmetricPublicKey::<V2, Public>::from(k32))));
    }
    { let k4096 = lkv(rsakeys::rsa4096_public()); let pool = rsakeys::pool(); let k2048 = lkv(pool[1].1.clone());
      for kb in [&k4096[..], &k2048[..], &k4096[..40], &[][..]] { for n in (0..=1100usize).step_by(1) { if n > 600 && n % 50 != 0 { continue; } let s = format!("v1.public.{}", R::b64(&vec![7u8; n]));
          if !no_panic(AssertUnwindSafe(|| { let _ = Paseto::<V1, Public>::try_verify(&s, &PasetoAsymmetricPublicKey::<V1, Public>::from(kb), None); })) { return wit(format!("C09 Paseto::<V1,Public>::try_verify panics on a {n}-byte payload under a {}-byte verifying key", kb.len())); } } } }
    for claim in ["exp", "nbf", "iat"] { for val in ["2023-02-30T00:00:00Z", "2023-02-31T12:00:00+00:00", "2023-04-31T00:00:00Z", "2023-01-01T24:00:00Z", "2023-01-01T23:59:60Z", "2016-12-31T23:59:60+00:00", "2023-01-01T00:00:00+24:00", "2023-01-01T00:00:00-99:99", "2023-13-01T00:00:00Z", "0000-00-00T00:00:00Z", "2023-01-01T25:61:61Z", "9999-12-31T23:59:59Z", "9999-12-31T23:59:59.999999999Z", "9999-12-31T23:59:59-23:59", "9999-12-31T23:59:59+23:59", "0000-01-01T00:00:00Z", "0000-01-01T00:00:00+23:59", "0001-01-01T00:00:00-23:59", "1970-01-01T00:00:00Z", "2038-01-19T03:14:08Z"] {
        let (t, key) = v4tok(&format!("{{\"{claim}\":\"{val}\"}}"));
        if !no_panic(AssertUnwindSafe(|| { let _ = PasetoParser::<V4, Local>::default().parse(lk(&t), key); })) { return wit(format!("C09 PasetoParser::<V4,Local>::parse panics on an authentic token whose {claim} is {val:?}")); }
        if !no_panic(AssertUnwindSafe(|| { let _ = GenericParser::<V4, Local>::default().parse(lk(&t), key); })) { return wit(format!("C09 GenericParser::<V4,Local>::parse panics on an authentic token whose {claim} is {val:?}")); } } }
    // long claim values with a multi-byte character at every offset up to 140: time claims that are not dates, expected claims that differ
    for off in 0..=140usize { for ch in ["\u{e9}", "\u{20ac}", "\u{1F511}"] { let v = format!("{}{ch}{}", "x".repeat(off), "y".repeat(150));
        let (t, key) = v4tok(&format!("{{\"exp\":{0},\"nbf\":{0},\"iat\":{0},\"aud\":{0},\"k\":{0}}}", serde_json::to_string(&v).unwrap()));
        if !no_panic(AssertUnwindSafe(|| { let _ = PasetoParser::<V4, Local>::default().parse(lk(&t), key); })) { return wit(format!("C09 PasetoParser::<V4,Local>::parse panics on an authentic token whose exp/nbf/iat are a {}-byte non-date string with {ch:?} at byte {off}", v.len())); }
        if !no_panic(AssertUnwindSafe(|| { let mut p = GenericParser::<V4, Local>::default(); p.check_claim(AudienceClaim::from("other")); let _ = p.parse(lk(&t), key);
            let mut p = GenericParser::<V4, Local>::default(); p.check_claim(CustomClaim::try_from(("k", lk(&format!("{v}z")))).unwrap()); let _ = p.parse(lk(&t), key);
            let mut p = PasetoParser::<V4, Local>::default(); p.check_claim(AudienceClaim::from(lk(&format!("z{v}")))); let _ = p.parse(lk(&t), key); })) { return wit(format!("C09 a parser expecting another aud / k panics on an authentic token whose values are {}-byte strings with {ch:?} at byte {off}", v.len())); } } }
    // authentic tokens whose payload is not a JSON object (what a bare core builder produces), presented to the parser layers
    for pl in ["", " ", "\n", "\t \n", "[]", "1", "null", "\"x\"", "{", "}", "{\"a\":", "\u{feff}", "\u{feff}{}", " {}", "{} ", "\0", "\u{20ac}"] {
        let (t, key) = v4tok(pl);
        if !no_panic(AssertUnwindSafe(|| { let _ = PasetoParser::<V4, Local>::default().parse(lk(&t), key); })) { return wit(format!("C09 PasetoParser::<V4,Local>::parse panics on an authentic token whose payload is {pl:?}")); }
        if !no_panic(AssertUnwindSafe(|| { let _ = GenericParser::<V4, Local>::default().parse(lk(&t), key); })) { return wit(format!("C09 GenericParser::<V4,Local>::parse panics on an authentic token whose payload is {pl:?}")); }
        let (kp, pk) = R::ed_keypair(9); let k64 = lkv(Key::<64>::from(kp)); let k32 = lkv(Key::<32>::from(pk)); let mut b = Paseto::<V4, Public>::builder(); b.set_payload(Payload::from(lk(pl)));
        if let Ok(tp) = b.try_sign(&PasetoAsymmetricPrivateKey::<V4, Public>::from(k64)) { let tp = lk(&tp); let pkk = lkv(PasetoAsymmetricPublicKey::<V4, Public>::from(k32));
            if !no_panic(AssertUnwindSafe(|| { let _ = PasetoParser::<V4, Public>::default().parse(tp, pkk); let _ = GenericParser::<V4, Public>::default().parse(tp, pkk); })) { return wit(format!("C09 the v4.public parsers panic on an authentic token whose payload is {pl:?}")); } } }
    // expected footer longer / shorter than the presented segment, multi-byte text in the footer segment
    for fseg in ["", "A", "Zm9", "Zm9v", "Zm9vYmFy", "\u{20ac}", "Z\u{20ac}", "Zm\u{e9}v", "=", "===="] { for exp_f in ["foo", "f", "foobarbaz", "\u{20ac}"] { let s = format!("v4.local.{}.{fseg}", R::b64(&[0u8; 70]));
        if !no_panic(AssertUnwindSafe(|| { let _ = Paseto::<V4, Local>::try_decrypt(&s, &PasetoSymmetricKey::<V4, Local>::from(key32(1)), Some(Footer::from(exp_f)), None); let mut p = PasetoParser::<V4, Local>::default(); p.set_footer(Footer::from(exp_f)); let _ = p.parse(lk(&s), lkv(PasetoSymmetricKey::<V4, Local>::from(key32(1)))); })) { return wit(format!("C09 try_decrypt/parse panics on token {s:?} with expected footer {exp_f:?}")); } } }
    { let (t, key) = v4tok("{\"sub\":\"alice\"}"); use std::collections::HashMap;
      let mut vm: ValidatorMap = HashMap::new(); vm.insert("absent".to_string(), Box::new(|_k: &str, _v: &serde_json::Value| Ok(())));
      let mut g = GenericParser::<V4, Local>::default(); g.extend_validation_claims(vm);
      if !no_panic(AssertUnwindSafe(|| { let _ = g.parse(lk(&t), key); })) { return wit("C09 GenericParser::parse panics on an authentic token that lacks a claim for which extend_validation_claims registered a validator".into()); }
      let mut g2 = GenericParser::<V4, Local>::default(); g2.check_claim(CustomClaim::try_from(("absent", 1)).unwrap()); g2.validate_claim(CustomClaim::try_from("absent2").unwrap(), &|_k, _v| Ok(()));
      if !no_panic(AssertUnwindSafe(|| { let _ = g2.parse(lk(&t), key); })) { return wit("C09 GenericParser::parse panics on an authentic token that lacks an expected / validated claim".into()); } }
    for k in 0..=14usize { for ch in ["\u{e9}", "\u{20ac}", "\u{1F511}"] { let base = "v4.local.AAAAAAAAAAAAAAAA"; let s: String = format!("{}{ch}{}", &base[..k], &base[k..]);
        if !no_panic(AssertUnwindSafe(|| { let _ = PasetoParser::<V4, Local>::default().parse(lk(&s), lkv(PasetoSymmetricKey::<V4, Local>::from(key32(1)))); let _ = GenericParser::<V4, Local>::default().parse(lk(&s), lkv(PasetoSymmetricKey::<V4, Local>::from(key32(1)))); let _ = Paseto::<V4, Local>::try_decrypt(&s, &PasetoSymmetricKey::<V4, Local>::from(key32(1)), None, None); })) { return wit(format!("C09 a parse entry point panics on token text {s:?} (multi-byte character at byte offset {k})")); } } }
    for n in 0..=200usize { for c in ["0", "a", "g", "\u{e9}"] { let s = c.repeat(n);
        if !no_panic(|| { let _ = Key::<32>::try_from(s.as_str()); }) { return wit(format!("C09 Key::<32>::try_from panics on a {n}-character string of {c:?}")); }
        if !no_panic(|| { let _ = Key::<64>::try_from(s.as_str()); }) { return wit(format!("C09 Key::<64>::try_from panics on a {n}-character string of {c:?}")); }
        if !no_panic(|| { let _ = Key::<24>::try_from(s.as_str()); }) { return wit(format!("C09 Key::<24>::try_from panics on a {n}-character string of {c:?}")); }
    }}
}
#[cfg(feature = "main_set")]
fn c10() {
    use std::collections::HashSet;
    macro_rules! go { ($V:ty, $nl:expr) => {{
        let key = lkv(PasetoSymmetricKey::<$V, Local>::from(key32(1)));
        let mut seen = HashSet::new(); let mut toks = HashSet::new(); let mut or_ = vec![0u8; $nl]; let mut and_ = vec![255u8; $nl];
        let mut b = GenericBuilder::<$V, Local>::default(); b.set_claim(AudienceClaim::from("a"));
        for k in 0..300 {
            let t = if k % 2 == 0 { b.try_encrypt(&key) } else { let mut b2 = GenericBuilder::<$V, Local>::default(); b2.set_claim(AudienceClaim::from("a")); b2.try_encrypt(&key) };
            let t = match t { Ok(t) => t, Err(e) => return wit(format!("C10 GenericBuilder<{},Local> failed: {e}", stringify!($V))) };
            let d = R::unb64(t.split('.').nth(2).unwrap()).unwrap_or_default();
            if d.len() < $nl { return wit(format!("C10 short payload")); }
            let n = d[..$nl].to_vec();
            for j in 0..$nl { or_[j] |= n[j]; and_[j] &= n[j]; }
            if !seen.insert(n) || !toks.insert(t.clone()) { return wit(format!("C10 GenericBuilder<{},Local>: build #{k} repeats a nonce/token under one key: {t}", stringify!($V))); }
        }
        for j in 0..$nl { if or_[j] != 255 || and_[j] != 0 { return wit(format!("C10 GenericBuilder<{},Local>: nonce byte {j} has constant bits over 300 builds (or={:02x} and={:02x})", stringify!($V), or_[j], and_[j])); } }
        let mut pb = PasetoBuilder::<$V, Local>::default(); let t1 = pb.build(&key).unwrap_or_default(); let t2 = pb.build(&key).unwrap_or_default();
        if t1 == t2 { return wit(format!("C10 PasetoBuilder<{},Local>: two builds give the same token", stringify!($V))); }
        // 80 builds from ONE reused builder (generic, then batteries-included): no nonce bit may be constant (chance of a false report 2^-71)
        for layer in 0..2 { let mut or_ = vec![0u8; $nl]; let mut and_ = vec![255u8; $nl]; let mut seen = HashSet::new();
            let mut gb = GenericBuilder::<$V, Local>::default(); gb.set_claim(AudienceClaim::from("a")); let mut pb = PasetoBuilder::<$V, Local>::default();
            for k in 0..80 { let t = if layer == 0 { gb.try_encrypt(&key).unwrap_or_default() } else { pb.build(&key).unwrap_or_default() };
                let d = R::unb64(t.split('.').nth(2).unwrap_or("")).unwrap_or_default(); if d.len() < $nl { return wit(format!("C10 build #{k} from a reused builder failed or is too short")); }
                for j in 0..$nl { or_[j] |= d[j]; and_[j] &= d[j]; }
                if !seen.insert(d[..$nl].to_vec()) { return wit(format!("C10 {}<{},Local>: build #{k} from one reused builder repeats a nonce", if layer == 0 { "GenericBuilder" } else { "PasetoBuilder" }, stringify!($V))); } }
            for j in 0..$nl { if or_[j] != 255 || and_[j] != 0 { return wit(format!("C10 {}<{},Local>: over 80 builds from ONE reused builder nonce byte {j} has constant bits (or={:02x} and={:02x}): the nonces are not independent draws", if layer == 0 { "GenericBuilder" } else { "PasetoBuilder" }, stringify!($V), or_[j], and_[j])); } } }
    }} }
    go!(V1, 32); go!(V2, 24); go!(V3, 32); go!(V4, 32);
    // builds of different versions (different draw sizes) interleaved on one thread; no nonce may contain a run of 8 equal bytes (chance 2^-59 per token)
    { let k4 = lkv(PasetoSymmetricKey::<V4, Local>::from(key32(1))); let k2 = lkv(PasetoSymmetricKey::<V2, Local>::from(key32(1))); let k3 = lkv(PasetoSymmetricKey::<V3, Local>::from(key32(1)));
      let mut b4 = GenericBuilder::<V4, Local>::default(); b4.set_claim(AudienceClaim::from("a")); let mut b2 = GenericBuilder::<V2, Local>::default(); b2.set_claim(AudienceClaim::from("a")); let mut b3 = GenericBuilder::<V3, Local>::default(); b3.set_claim(AudienceClaim::from("a"));
      let mut seen = HashSet::new();
      for k in 0..400usize { let _ = Key::<24>::try_new_random(); if k % 3 == 0 { let _ = Key::<64>::try_new_random(); }
        for (name, t, nl) in [("v4", b4.try_encrypt(k4).unwrap_or_default(), 32usize), ("v2", b2.try_encrypt(k2).unwrap_or_default(), 24), ("v3", b3.try_encrypt(k3).unwrap_or_default(), 32)] {
            let d = R::unb64(t.split('.').nth(2).unwrap_or("")).unwrap_or_default(); if d.len() < nl { return wit(format!("C10 interleaved builds: {name}.local build #{k} failed")); }
            let n = &d[..nl]; if n.windows(8).any(|w| w.iter().all(|x| *x == w[0])) { return wit(format!("C10 builds of several versions interleaved on one thread (with other random keys drawn in between): the {name}.local token #{k} has a nonce with 8 equal bytes in a row: {:02x?}", n)); }
            if !seen.insert(n.to_vec()) { return wit(format!("C10 interleaved builds: the {name}.local token #{k} repeats a nonce")); } } } }
    // builds on several threads
    { let handles: Vec<_> = (0..4).map(|_| std::thread::spawn(|| { let key = PasetoSymmetricKey::<V4, Local>::from(key32(1)); let mut out = vec![];
          let mut b = GenericBuilder::<V4, Local>::default(); b.set_claim(AudienceClaim::from("a")); for _ in 0..16 { if let Ok(t) = b.try_encrypt(&key) { out.push(t); } } out })).collect();
      let mut seen = HashSet::new(); for (ti, h) in handles.into_iter().enumerate() { for t in h.join().unwrap_or_default() { let d = R::unb64(t.split('.').nth(2).unwrap_or("")).unwrap_or_default(); if d.len() < 32 || !seen.insert(d[..32].to_vec()) { return wit(format!("C10 GenericBuilder<V4,Local>: a nonce produced on thread {ti} repeats one produced on another thread: {t}")); } } } }
    // per-bit frequency of the nonce over 600 builds (no bit stuck at 0 or 1 is already checked; a heavily biased bit is caught here)
    { let key = lkv(PasetoSymmetricKey::<V4, Local>::from(key32(1))); let mut ones = vec![0u32; 256]; let n = 600u32;
      for _ in 0..n { let mut b = GenericBuilder::<V4, Local>::default(); b.set_claim(AudienceClaim::from("a")); if let Ok(t) = b.try_encrypt(&key) { let d = R::unb64(t.split('.').nth(2).unwrap_or("")).unwrap_or_default(); if d.len() >= 32 { for j in 0..256 { if d[j / 8] >> (j % 8) & 1 == 1 { ones[j] += 1; } } } } }
      for j in 0..256 { if ones[j] < n / 5 || ones[j] > n - n / 5 { return wit(format!("C10 GenericBuilder<V4,Local>: bit {} of nonce byte {} is set in {} of {n} tokens (not uniform)", j % 8, j / 8, ones[j])); } } }
}
#[cfg(feature = "main_set")]
fn v4tok(payload: &str) -> (String, &'static PasetoSymmetricKey<V4, Local>) {
    { let n = Key::<32>::from([5u8; 32]); let key = lkv(PasetoSymmetricKey::<V4, Local>::from(key32(1)));
        let t = Paseto::<V4, Local>::builder().set_payload(Payload::from(payload)).try_encrypt(&key, &PasetoNonce::<V4, Local>::from(&n)).unwrap(); (t, key) }
}
#[cfg(feature = "main_set")]
fn c11_c12(which: &str) {
    use time::format_description::well_known::Rfc3339;
    let now = time::OffsetDateTime::now_utc();
    let fmt = |t: time::OffsetDateTime, off: (i8, i8), frac: bool| { let o = time::UtcOffset::from_hms(off.0, off.1, 0).unwrap(); let mut t = t.to_offset(o); if !frac { t = t.replace_nanosecond(0).unwrap(); } t.format(&Rfc3339).unwrap() };
    let offs = [(0i8, 0i8), (5, 0), (-8, 0), (23, 59), (-23, -59), (1, 30)];
    let past = [time::Duration::seconds(2), time::Duration::hours(1), time::Duration::hours(7), time::Duration::days(400), time::Duration::days(365 * 40), time::Duration::days(365 * 57), time::Duration::days(365 * 400), time::Duration::days(365 * 1900)];
    let fut = [time::Duration::seconds(900), time::Duration::hours(1), time::Duration::hours(7), time::Duration::days(400), time::Duration::days(365 * 1000), time::Duration::days(365 * 237), time::Duration::days(365 * 280), time::Duration::days(365 * 480), time::Duration::days(365 * 6900)];
    let mut cases: Vec<(String, bool)> = vec![]; // (json value text, must_accept) for exp; reversed for nbf
    for o in offs { for fr in [false, true] { for d in past { cases.push((format!("\"{}\"", fmt(now - d, o, fr)), false)); } for d in fut { cases.push((format!("\"{}\"", fmt(now + d, o, fr)), true)); } } }
    let bad = ["12345", "true", "false", "[1]", "{\"a\":1}", "\"\"", "\" \"", "\"garbage\"", "\"2019-01-01\"", "0", "1.5", "[]", "{}", "4102444800", "99999999999", "1e12", "-1", "\"4102444800\"", "\"2019-01-01T00:00Z\"", "\"20190101T000000Z\"", "\"2019-01-01\"", "\"2019-01-01T00:00:00\"", "\"2999-01-01T00:00Z\"", "\"29990101T000000Z\"", "\"2999-001T00:00:00Z\""];
    // the registered claim decides, whatever look-alike members (other case, padded, dotted) sit next to it
    { let bad_exp = "2000-01-01T00:00:00Z"; let good = "2999-01-01T00:00:00Z"; let bad_nbf = "2999-01-01T00:00:00Z"; let good_nbf = "2000-01-01T00:00:00Z";
      for alias in ["Exp", "EXP", "eXp", " exp", "exp ", "exp.", "Expiration", "exp\u{0}"] {
        let (t, key) = v4tok(&format!("{{\"exp\":\"{bad_exp}\",{}:\"{good}\"}}", serde_json::to_string(alias).unwrap()));
        if which == "C11" && PasetoParser::<V4, Local>::default().parse(lk(&t), key).is_ok() { return wit(format!("C11 default PasetoParser accepts a token whose exp is {bad_exp} because a member {alias:?} = {good} is also present")); }
        let (t2, _) = v4tok(&format!("{{{}:\"{good}\",\"exp\":\"{bad_exp}\"}}", serde_json::to_string(alias).unwrap()));
        if which == "C11" && PasetoParser::<V4, Local>::default().parse(lk(&t2), key).is_ok() { return wit(format!("C11 default PasetoParser accepts a token whose exp is {bad_exp} because a member {alias:?} = {good} precedes it")); }
        let nalias = alias.replace("exp", "nbf").replace("Exp", "Nbf").replace("EXP", "NBF").replace("eXp", "nBf");
        let (t3, _) = v4tok(&format!("{{\"nbf\":\"{bad_nbf}\",{}:\"{good_nbf}\"}}", serde_json::to_string(&nalias).unwrap()));
        if which == "C12" && PasetoParser::<V4, Local>::default().parse(lk(&t3), key).is_ok() { return wit(format!("C12 default PasetoParser accepts a token whose nbf is {bad_nbf} because a member {nalias:?} = {good_nbf} is also present")); }
        let (t4, _) = v4tok(&format!("{{\"exp\":\"{good}\",\"nbf\":\"{good_nbf}\",{}:\"{bad_exp}\",{}:\"{bad_nbf}\"}}", serde_json::to_string(alias).unwrap(), serde_json::to_string(&nalias).unwrap()));
        if let Err(e) = PasetoParser::<V4, Local>::default().parse(lk(&t4), key) { return wit(format!("{which} default PasetoParser rejects a token with valid exp and nbf because of look-alike members {alias:?} / {nalias:?}: {e}")); } } }
    // tokens that carry exp AND nbf (and iat), each rendered with its own offset: valid windows are accepted, an expired or not-yet-valid one is refused
    { let m10 = time::Duration::minutes(10);
      for o1 in offs { for o2 in offs { for (nbf_t, exp_t, ok) in [(now - m10, now + m10, true), (now - m10 - m10, now - m10, false), (now + m10, now + m10 + m10, false), (now - time::Duration::days(2), now + time::Duration::days(2), true)] {
          let pl = format!("{{\"nbf\":\"{}\",\"exp\":\"{}\",\"iat\":\"{}\"}}", fmt(nbf_t, o1, false), fmt(exp_t, o2, true), fmt(nbf_t, o2, false));
          let (t, key) = v4tok(&pl); let r = PasetoParser::<V4, Local>::default().parse(lk(&t), key);
          if r.is_ok() != ok { return wit(format!("{which} default PasetoParser<V4,Local> on payload {pl} (now = {}) -> {:?} but must {}", now.format(&Rfc3339).unwrap(), r.map(|_| "Ok").map_err(|e| e.to_string()), if ok { "accept" } else { "reject" })); } } } } }
    // verdicts follow the clock at the time of EACH parse: tokens with only one of the two claims are parsed, time passes, then a token whose
    // nbf (or exp) lies between the two parses is judged (8 rounds, fresh parsers: validator order varies with the map's hashing)
    for round in 0..8 { let t0 = time::OffsetDateTime::now_utc();
        let (ta, key) = v4tok(&format!("{{\"exp\":\"{}\"}}", fmt(t0 + time::Duration::hours(1), (0, 0), true))); let (tb0, _) = v4tok(&format!("{{\"nbf\":\"{}\"}}", fmt(t0 - time::Duration::hours(1), (0, 0), true)));
        let _ = PasetoParser::<V4, Local>::default().parse(lk(&ta), key); if round % 2 == 1 { let _ = PasetoParser::<V4, Local>::default().parse(lk(&tb0), key); }
        std::thread::sleep(std::time::Duration::from_millis(450));
        let t1 = time::OffsetDateTime::now_utc(); let mid = t0 + (t1 - t0) / 2;
        let (tn, _) = v4tok(&format!("{{\"nbf\":\"{}\",\"exp\":\"{}\"}}", fmt(mid, (0, 0), true), fmt(t1 + time::Duration::hours(1), (0, 0), true)));
        let (te, _) = v4tok(&format!("{{\"exp\":\"{}\",\"nbf\":\"{}\"}}", fmt(mid, (0, 0), true), fmt(t0 - time::Duration::hours(1), (0, 0), true)));
        if which == "C12" { if let Err(e) = PasetoParser::<V4, Local>::default().parse(lk(&tn), key) { return wit(format!("C12 a token whose nbf ({}) passed 0.2 s ago is refused ({e}) by a fresh default PasetoParser on a thread that parsed another token 0.45 s earlier (round {round})", fmt(mid, (0, 0), true))); } }
        else if PasetoParser::<V4, Local>::default().parse(lk(&te), key).is_ok() { return wit(format!("C11 a token whose exp ({}) passed 0.2 s ago is accepted by a fresh default PasetoParser on a thread that parsed another token 0.45 s earlier (round {round})", fmt(mid, (0, 0), true))); } }
    for (claim, flip) in [("exp", false), ("nbf", true)] {
        if (which == "C11") == flip { continue; }
        for (val, acc) in &cases { let must_accept = *acc != flip;
            let (t, key) = v4tok(&format!("{{\"{claim}\":{val}}}"));
            for layer in 0..2 { let r = if layer == 0 { PasetoParser::<V4, Local>::default().parse(lk(&t), key).is_ok() } else { let (t3, k3) = { let n = Key::<32>::from([5u8; 32]); let key = lkv(PasetoSymmetricKey::<V3, Local>::from(key32(1))); (Paseto::<V3, Local>::builder().set_payload(Payload::from(format!("{{\"{claim}\":{val}}}").as_str())).try_encrypt(&key, &PasetoNonce::<V3, Local>::from(&n)).unwrap(), key) }; PasetoParser::<V3, Local>::default().parse(lk(&t3), k3).is_ok() };
                if r != must_accept { return wit(format!("{which} default PasetoParser<{}> on payload {{\"{claim}\":{val}}} (now = {}) -> {} but must {}", if layer == 0 { "V4,Local" } else { "V3,Local" }, now.format(&Rfc3339).unwrap(), if r { "accept" } else { "reject" }, if must_accept { "accept" } else { "reject" })); } }
        }
        for b in bad { let (t, key) = v4tok(&format!("{{\"{claim}\":{b}}}")); if PasetoParser::<V4, Local>::default().parse(lk(&t), key).is_ok() { return wit(format!("{which} default PasetoParser accepts a token whose {claim} is present but not an RFC 3339 timestamp: {{\"{claim}\":{b}}}")); } }
        // the default check cannot be displaced by an expected-claim registration or by a custom claim whose key merely looks like the registered one
        { fn always_ok(_k: &str, _v: &serde_json::Value) -> Result<(), PasetoClaimError> { Ok(()) }
          let bad_instant = if claim == "exp" { "2000-01-01T00:00:00Z" } else { "2999-01-01T00:00:00Z" };
          let (t, key) = v4tok(&format!("{{\"{claim}\":\"{bad_instant}\"}}"));
          let mut p = PasetoParser::<V4, Local>::default();
          if claim == "exp" { p.check_claim(ExpirationClaim::try_from(bad_instant).unwrap()); } else { p.check_claim(NotBeforeClaim::try_from(bad_instant).unwrap()); }
          if p.parse(lk(&t), key).is_ok() { return wit(format!("{which} PasetoParser::default().check_claim({claim} = {bad_instant}) accepts a token whose {claim} is {bad_instant} (the default {claim} validator no longer runs)")); }
          for k in [format!("{claim} "), format!(" {claim}"), format!("{claim}\0"), claim.to_uppercase()] { if let Ok(c) = CustomClaim::try_from(k.as_str()) {
              let mut p = PasetoParser::<V4, Local>::default(); p.validate_claim(c, &always_ok);
              if p.parse(lk(&t), key).is_ok() { return wit(format!("{which} PasetoParser::default().validate_claim(CustomClaim {k:?}, accept-all) accepts a token whose {claim} is {bad_instant}: a custom claim displaced the default {claim} validator")); } } } }
        { let bad_instant = if claim == "exp" { "2000-01-01T00:00:00Z" } else { "2999-01-01T00:00:00Z" };
          let (t, key) = v4tok(&format!("{{\"{claim}\":\"{bad_instant}\",\"aud\":\"customers\",\"sub\":\"loyal\",\"iss\":\"me\"}}"));
          for round in 0..64 { let mut p = PasetoParser::<V4, Local>::default(); p.check_claim(AudienceClaim::from("customers")); if round % 2 == 0 { p.check_claim(SubjectClaim::from("loyal")); } if round % 3 == 0 { p.check_claim(IssuerClaim::from("me")); }
              if p.parse(lk(&t), key).is_ok() { return wit(format!("{which} PasetoParser::default() with matching aud/sub/iss expectations (fresh parser #{round}) accepts a token whose {claim} is {bad_instant}")); } }
          let good_instant = if claim == "exp" { "2999-01-01T00:00:00Z" } else { "2000-01-01T00:00:00Z" };
          let (t2, key2) = v4tok(&format!("{{\"{claim}\":\"{good_instant}\"}}"));
          if let Err(e) = PasetoParser::<V4, Local>::default().parse(lk(&t2), key2) { return wit(format!("{which} PasetoParser::default() rejects a token whose only claim is a valid {claim} = {good_instant}: {e}")); } }
        { let bad_instant = if claim == "exp" { "2000-01-01T00:00:00Z" } else { "2999-01-01T00:00:00Z" }; let key = lkv(PasetoSymmetricKey::<V4, Local>::from(key32(1))); let n = Key::<32>::from([5u8; 32]);
          let pl = lk(&format!("{{\"{claim}\":\"{bad_instant}\"}}")); let mut cb = Paseto::<V4, Local>::builder(); cb.set_payload(Payload::from(pl)); cb.set_footer(Footer::from("ft")); cb.set_implicit_assertion(ImplicitAssertion::from("ia"));
          if let Ok(t) = cb.try_encrypt(&key, &PasetoNonce::<V4, Local>::from(&n)) { for order in 0..3 { let mut p = PasetoParser::<V4, Local>::default();
              match order { 0 => { p.set_footer(Footer::from("ft")); p.set_implicit_assertion(ImplicitAssertion::from("ia")); } 1 => { p.set_implicit_assertion(ImplicitAssertion::from("ia")); p.set_footer(Footer::from("ft")); } _ => { p.check_claim(CustomClaim::try_from(("zz", 1)).unwrap_or_else(|_| unreachable!())); p.set_footer(Footer::from("ft")); p.set_implicit_assertion(ImplicitAssertion::from("ia")); } }
              if order < 2 && p.parse(lk(&t), key).is_ok() { return wit(format!("{which} PasetoParser::default() with set_footer / set_implicit_assertion (order {order}) accepts a token whose {claim} is {bad_instant}")); } } } }
        // one parser reused for several tokens: every parse applies the default check afresh
        { let bad_instant = if claim == "exp" { "2000-01-01T00:00:00Z" } else { "2999-01-01T00:00:00Z" }; let good_instant = if claim == "exp" { "2999-01-01T00:00:00Z" } else { "2000-01-01T00:00:00Z" };
          let (tg, key) = v4tok(&format!("{{\"{claim}\":\"{good_instant}\"}}")); let (tb, _) = v4tok(&format!("{{\"{claim}\":\"{bad_instant}\"}}")); let (tn, _) = v4tok(&format!("{{\"{claim}\":12345}}"));
          let mut p = PasetoParser::<V4, Local>::default(); let mut got = vec![];
          for t in [&tg, &tb, &tn, &tg, &tb] { got.push(p.parse(lk(t), key).is_ok()); }
          if got != [true, false, false, true, false] { return wit(format!("{which} one PasetoParser<V4,Local> parsing tokens with {claim} = [valid, invalid instant, non-timestamp, valid, invalid instant] in turn: accepted = {got:?} but must be [true, false, false, true, false]")); }
          let mut g = PasetoParser::<V4, Local>::default(); g.check_claim(CustomClaim::try_from(("x", 1)).unwrap()); let _ = g.parse(lk(&tg), key); let mut p2 = PasetoParser::<V4, Local>::default(); let _ = p2.parse(lk("garbage"), key); let _ = p2.parse(lk(&tg), key);
          if p2.parse(lk(&tb), key).is_ok() { return wit(format!("{which} one PasetoParser<V4,Local>: after a failed and a successful parse, a token with {claim} = {bad_instant} is accepted")); } }
        // one parser, one token, parsed before and after the instant passes: the verdict must follow the clock
        { let t0 = time::OffsetDateTime::now_utc(); let soon = fmt(t0 + time::Duration::milliseconds(4000), (0, 0), true); let (t, key) = v4tok(&format!("{{\"{claim}\":\"{soon}\"}}"));
          let mut p = PasetoParser::<V4, Local>::default(); let first = p.parse(lk(&t), key).is_ok(); let in_time = time::OffsetDateTime::now_utc() < t0 + time::Duration::milliseconds(3500);
          let wait = (t0 + time::Duration::milliseconds(4700)) - time::OffsetDateTime::now_utc(); if wait.is_positive() { std::thread::sleep(std::time::Duration::from_millis(wait.whole_milliseconds() as u64)); }
          let second = p.parse(lk(&t), key).is_ok(); let want = if claim == "exp" { (true, false) } else { (false, true) };
          // (only judged when the first parse demonstrably happened before the instant: a loaded machine must not produce a false witness)
          if in_time && (first, second) != want { return wit(format!("{which} one PasetoParser<V4,Local>, token with {claim} = now+4s parsed before and after that instant: accepted = ({first},{second}) but must be {want:?}")); } }
        for ok in ["{}", "{\"x\":1}", &format!("{{\"{claim}\":null}}")] { let (t, key) = v4tok(ok); if let Err(e) = PasetoParser::<V4, Local>::default().parse(lk(&t), key) { return wit(format!("{which} default PasetoParser rejects a token without {claim}: {ok} -> {e}")); } }
    }
}
#[cfg(feature = "main_set")]
fn c13() {
    case_variant_claims("C13");
    let key = lkv(PasetoSymmetricKey::<V4, Local>::from(key32(1)));
    // iat/nbf/exp are fixed at the builder's creation, not at build time
    { let before = time::OffsetDateTime::now_utc(); let mut b = PasetoBuilder::<V4, Local>::default(); let created = time::OffsetDateTime::now_utc();
      std::thread::sleep(std::time::Duration::from_millis(1300));
      if let Ok(t) = b.build(&key) { if let Ok(j) = GenericParser::<V4, Local>::default().parse(lk(&t), key) {
          let pt = |v: &serde_json::Value| time::OffsetDateTime::parse(v.as_str().unwrap_or(""), &time::format_description::well_known::Rfc3339);
          if let (Ok(e), Ok(i), Ok(n)) = (pt(&j["exp"]), pt(&j["iat"]), pt(&j["nbf"])) {
              if i > created + time::Duration::milliseconds(300) || n > created + time::Duration::milliseconds(300) || i < before - time::Duration::seconds(1) || e - i != time::Duration::hours(1) {
                  return wit(format!("C13 PasetoBuilder created at {created}, built 1.3 s later: iat = {i}, nbf = {n}, exp = {e} (iat and nbf must be the creation time, exp one hour later)")); } } } } }
    let parse = |t: &str| GenericParser::<V4, Local>::default().parse(t, &key).unwrap();
    // a caller-supplied nbf, however far ahead, leaves the default exp at iat + 1h
    for ahead in [time::Duration::minutes(59), time::Duration::hours(1), time::Duration::hours(2), time::Duration::days(3)] { let nb = (time::OffsetDateTime::now_utc() + ahead).format(&time::format_description::well_known::Rfc3339).unwrap();
        let mut b = PasetoBuilder::<V4, Local>::default(); b.set_claim(NotBeforeClaim::try_from(nb.as_str()).unwrap());
        if let Ok(t) = b.build(&key) { if let Ok(j) = GenericParser::<V4, Local>::default().parse(lk(&t), key) { let pt = |v: &serde_json::Value| time::OffsetDateTime::parse(v.as_str().unwrap_or(""), &time::format_description::well_known::Rfc3339);
            match (pt(&j["exp"]), pt(&j["iat"])) { (Ok(e), Ok(i)) => { if e - i != time::Duration::hours(1) || j["nbf"] != nb.as_str() { return wit(format!("C13 PasetoBuilder with only nbf = {nb} supplied (no exp): the token carries {j}; the default exp must stay iat + 1h and nbf the supplied value")); } } _ => return wit(format!("C13 PasetoBuilder with nbf supplied: exp/iat missing or unparsable in {j}")) } } } }
    // several builders created in quick succession: each one's iat/nbf lie within its own creation window
    { let mut prev_after = time::OffsetDateTime::now_utc();
      for k in 0..6 { let before = time::OffsetDateTime::now_utc(); let mut b = PasetoBuilder::<V4, Local>::default(); let after = time::OffsetDateTime::now_utc(); std::thread::sleep(std::time::Duration::from_millis(120));
        if let Ok(t) = b.build(&key) { if let Ok(j) = GenericParser::<V4, Local>::default().parse(lk(&t), key) { let pt = |v: &serde_json::Value| time::OffsetDateTime::parse(v.as_str().unwrap_or(""), &time::format_description::well_known::Rfc3339);
            if let (Ok(i), Ok(n)) = (pt(&j["iat"]), pt(&j["nbf"])) { if i < before || i > after || n < before || n > after { return wit(format!("C13 builder #{k} of several created 120 ms apart: created between {before} and {after}, but its token has iat = {i}, nbf = {n}")); } } } }
        prev_after = after; } }
    // ops: 0=set exp, 1=set custom, 2=ack, 3=footer, 4=build, 5=set nbf, 6=set iat
    let far = "2999-01-01T00:00:00Z";
    let mut seqs: Vec<Vec<u8>> = vec![vec![]];
    for _ in 0..4 { let mut nx = vec![]; for s in &seqs { for op in 0..7u8 { let mut t = s.clone(); t.push(op); nx.push(t); } } seqs.extend(nx); seqs.sort(); seqs.dedup(); }
    for s in seqs.iter().filter(|s| s.len() <= 4) {
        let before = time::OffsetDateTime::now_utc();
        let mut b = PasetoBuilder::<V4, Local>::default(); let mut ack = false; let mut user_exp = false; let mut user_iat = false; let mut user_nbf = false;
        let mut ops = s.clone(); ops.push(4);
        for (ix, op) in ops.iter().enumerate() { match op {
            0 => { b.set_claim(ExpirationClaim::try_from(far).unwrap()); user_exp = true; }
            1 => { b.set_claim(CustomClaim::try_from(("c", ix as u64)).unwrap()); }
            2 => { b.set_no_expiration_danger_acknowledged(); ack = true; }
            3 => { b.set_footer(Footer::from("ft")); }
            5 => { b.set_claim(NotBeforeClaim::try_from("2000-01-01T00:00:00Z").unwrap()); user_nbf = true; }
            6 => { b.set_claim(IssuedAtClaim::try_from("2000-01-01T00:00:00Z").unwrap()); user_iat = true; }
            _ => { if let Ok(t) = b.build(&key) {
                let mut p = GenericParser::<V4, Local>::default(); if ops[..ix].contains(&3) { p.set_footer(Footer::from("ft")); }
                let j = match p.parse(lk(&t), key) { Ok(j) => j, Err(e) => return wit(format!("C13 built token does not parse: ops {ops:?}: {e}")) };
                let has = !j["exp"].is_null();
                if has == ack { return wit(format!("C13 PasetoBuilder ops {ops:?} (0=set exp,1=custom,2=acknowledge no expiration,3=footer,4=build,5=nbf,6=iat): token built at step {ix} {} an exp claim but acknowledged={ack}: {j}", if has { "carries" } else { "lacks" })); }
                if !user_exp && !ack { let parse_t = |v: &serde_json::Value| time::OffsetDateTime::parse(v.as_str().unwrap_or(""), &time::format_description::well_known::Rfc3339);
                    match (parse_t(&j["exp"]), parse_t(&j["iat"]), parse_t(&j["nbf"])) { (Ok(e), Ok(i), Ok(n)) => {
                        if !user_iat && e - i != time::Duration::hours(1) { return wit(format!("C13 default exp is not iat + 1h: ops {ops:?} -> {j}")); }
                        let after = time::OffsetDateTime::now_utc();
                        if (!user_iat && (i < before || i > after)) || (!user_nbf && n != i && !user_iat) { return wit(format!("C13 default iat/nbf are not the builder's creation time: ops {ops:?} -> {j}")); } }
                        _ => return wit(format!("C13 default time claims missing or unparsable: ops {ops:?} -> {j}")) } }
            } }
        } }
    }
}
#[cfg(feature = "main_set")]
fn case_variant_claims(pid: &str) {
    let key = lkv(PasetoSymmetricKey::<V4, Local>::from(key32(1)));
    for (name, lower) in [("EXP", "exp"), ("Exp", "exp"), ("IAT", "iat"), ("Nbf", "nbf"), ("ISS", "iss"), ("Sub", "sub"), (" exp", "exp"), ("exp ", "exp"), (" iat", "iat"), ("nbf ", "nbf"), ("exp\t", "exp"), ("\nexp", "exp")] {
        let mut b = PasetoBuilder::<V4, Local>::default(); b.set_no_expiration_danger_acknowledged(); b.set_claim(CustomClaim::try_from((name, "custom")).unwrap());
        match b.build(key) { Ok(t) => { if let Ok(j) = GenericParser::<V4, Local>::default().parse(lk(&t), key) {
            if j[name] != "custom" { return wit(format!("{pid} custom claim {name:?} set on a PasetoBuilder does not appear under that key: {j}")); }
            if lower == "exp" && !j["exp"].is_null() { return wit(format!("{pid} PasetoBuilder with acknowledged no-expiration and a custom claim {name:?}: the token carries exp: {j}")); }
            if lower != "exp" && j[lower] == "custom" { return wit(format!("{pid} custom claim {name:?} replaced the registered claim {lower:?}: {j}")); } } }
          Err(e) => return wit(format!("{pid} PasetoBuilder with custom claim {name:?} failed to build: {e}")) }
        let mut b2 = PasetoBuilder::<V4, Local>::default(); b2.set_claim(CustomClaim::try_from((name, "custom")).unwrap());
        if let Ok(t) = b2.build(key) { if let Ok(j) = GenericParser::<V4, Local>::default().parse(lk(&t), key) { if lower == "exp" { let e = j["exp"].as_str().unwrap_or(""); if time::OffsetDateTime::parse(e, &time::format_description::well_known::Rfc3339).is_err() { return wit(format!("{pid} PasetoBuilder with a custom claim {name:?}: the default exp was displaced: {j}")); } } } } }
}
#[cfg(feature = "main_set")]
fn claims_between_builds(pid: &str) {
    use serde_json::json; let key = lkv(PasetoSymmetricKey::<V4, Local>::from(key32(1)));
    // claims changed between two builds of one builder (set / remove / extend) are all reflected in the second token
    { use std::collections::HashMap; let mut b = GenericBuilder::<V4, Local>::default(); b.set_claim(CustomClaim::try_from(("a", 1)).unwrap()); b.set_claim(CustomClaim::try_from(("gone", 1)).unwrap());
      let _ = b.try_encrypt(&key);
      let mut more: HashMap<String, Box<dyn erased_serde::Serialize>> = HashMap::new(); more.insert("ext".to_string(), Box::new(7)); b.extend_claims(more); b.remove_claim("gone");
      if let Ok(t) = b.try_encrypt(&key) { match GenericParser::<V4, Local>::default().parse(lk(&t), key) { Ok(j) => { if j != json!({"a": 1, "ext": 7}) { return wit(format!("{pid} build, then extend_claims({{ext:7}}) and remove_claim(gone), then build again: the second token holds {j} instead of {{a:1, ext:7}}")); } } Err(e) => return wit(format!("{pid} second build does not parse: {e}")) } }
      { use std::collections::HashMap; for (k, v) in [("user", json!({"user": "morty"})), ("a", json!({"a": {"a": 1}})), ("x", json!({"y": 1})), ("n", json!([{"n": 1}])), ("e", json!({})), ("s", json!("s"))] {
          let mut g = GenericBuilder::<V4, Local>::default(); let mut m: HashMap<String, Box<dyn erased_serde::Serialize>> = HashMap::new(); m.insert(k.to_string(), Box::new(v.clone())); g.extend_claims(m);
          if let Ok(t) = g.try_encrypt(&key) { match GenericParser::<V4, Local>::default().parse(lk(&t), key) { Ok(j) => { if j != json!({k: v.clone()}) { return wit(format!("{pid} extend_claims({{{k}: {v}}}) then build: the parsed token holds {j}")); } } Err(e) => return wit(format!("{pid} extend_claims({{{k}: {v}}}): the token does not parse: {e}")) } }
          let mut g = GenericBuilder::<V4, Local>::default(); g.set_claim(CustomClaim::try_from((k, v.clone())).unwrap());
          if let Ok(t) = g.try_encrypt(&key) { match GenericParser::<V4, Local>::default().parse(lk(&t), key) { Ok(j) => { if j != json!({k: v.clone()}) { return wit(format!("{pid} set_claim({k} = {v}) then build: the parsed token holds {j}")); } } Err(e) => return wit(format!("{pid} set_claim({k} = {v}): the token does not parse: {e}")) } } } }
      b.set_claim(CustomClaim::try_from(("late", true)).unwrap());
      if let Ok(t) = b.try_encrypt(&key) { match GenericParser::<V4, Local>::default().parse(lk(&t), key) { Ok(j) => { if j != json!({"a": 1, "ext": 7, "late": true}) { return wit(format!("{pid} third build after set_claim(late): the token holds {j}")); } } Err(e) => return wit(format!("{pid} third build does not parse: {e}")) } } }
}
#[cfg(feature = "main_set")]
fn c14() {
    use serde_json::json;
    let key = lkv(PasetoSymmetricKey::<V4, Local>::from(key32(1)));
    let vals = vec![json!("s"), json!("Zo\u{eb} M\u{fc}ller \u{1F511}"), json!(5), json!(-7), json!(1.5), json!(true), json!(null), json!([1, "a", null]), json!({"k": "v"}), json!({"n": {"n": 1}}), json!({"a": {"b": [1, {"c": null}]}}), json!({}), json!([]), json!(""), json!({"x": 1, "y": 2}),
        json!("\u{feff}"), json!("\u{feff}lead"), json!("mid\u{feff}dle"), json!("\u{200b}\u{2028}\u{2029}"), json!("nul\u{0}byte"), json!("q\"uote \\ back\nline\ttab"), json!(" padded "), json!({"\u{feff}k": "\u{feff}v"}), json!(["\u{feff}"]), json!(9007199254740993i64), json!(-0.5), json!(1e-7), json!(u64::MAX)];
    for (fv, want) in [(0.1f32, 0.1f64), (1.5, 1.5), (2.25, 2.25), (0.3, 0.3), (1e-3, 0.001), (16777217.0, 16777216.0)] { let mut b = GenericBuilder::<V4, Local>::default(); b.set_claim(CustomClaim::try_from(("f", fv)).unwrap()); b.set_claim(CustomClaim::try_from(("v", vec![fv, fv])).unwrap());
        if let Ok(t) = b.try_encrypt(&key) { match GenericParser::<V4, Local>::default().parse(lk(&t), key) { Ok(j) => { if j != json!({"f": want, "v": [want, want]}) { return wit(format!("C14 an f32 claim {fv} (short decimal form {want}) set directly and inside a Vec comes back as {j}")); } } Err(e) => return wit(format!("C14 parse failed for an f32 claim: {e}")) } } }
    let keys = ["a", "n", "k", "scope", "\u{e9}\u{1F511}", "x", "\u{feff}", "k\u{feff}", " k", "k ", "K", "a.b", "k\"q", "back\\slash", "tab\there", "nl\nkey", "\u{1}", "zw\u{200b}sp", "cafe\u{301}", "\u{7f}", "a\u{0}b", "\u{2028}", "'", "{", "\",\"x\":\"y"];   // non-empty keys only (C14 quantifies over non-empty keys; set_claim documents that it ignores an empty key)
    for k in keys { for v in &vals { for rounds in 1..=2 {
        let mut b = GenericBuilder::<V4, Local>::default();
        b.set_claim(CustomClaim::try_from(("other", 1)).unwrap());
        b.set_claim(CustomClaim::try_from((k, json!("overwritten"))).unwrap());
        b.set_claim(CustomClaim::try_from((k, v.clone())).unwrap());
        b.set_claim(CustomClaim::try_from(("gone", 1)).unwrap()); b.remove_claim("gone");
        b.set_claim(IssuerClaim::from("me")); b.set_claim(TokenIdentifierClaim::from("id1")); b.set_claim(SubjectClaim::from("sb")); b.set_claim(AudienceClaim::from("au"));
        let mut t = String::new(); for _ in 0..rounds { t = match b.try_encrypt(&key) { Ok(t) => t, Err(e) => return wit(format!("C14 try_encrypt failed: {e}")) }; }
        let j = match GenericParser::<V4, Local>::default().parse(lk(&t), key) { Ok(j) => j, Err(e) => return wit(format!("C14 parse failed for claim {k:?}={v}: {e}")) };
        let want = json!({"other": 1, k: v, "iss": "me", "jti": "id1", "sub": "sb", "aud": "au"});
        if j != want { return wit(format!("C14 claims set {want} but (after {rounds} build(s)) the parsed token holds {j}")); }
    }}}
    { let mut b = GenericBuilder::<V4, Local>::default(); for k in ["Data", "data", "DATA", "Sub"] { b.set_claim(CustomClaim::try_from((k, 1)).unwrap()); } b.set_claim(SubjectClaim::from("s")); b.remove_claim("data");
      if let Ok(t) = b.try_encrypt(&key) { match GenericParser::<V4, Local>::default().parse(lk(&t), key) { Ok(j) => { if j != json!({"Data": 1, "DATA": 1, "Sub": 1, "sub": "s"}) { return wit(format!("C14 claims Data, data, DATA, Sub, sub were set and only `data` removed, but the parsed token holds {j}")); } } Err(e) => return wit(format!("C14 parse failed after remove_claim: {e}")) } } }
    claims_between_builds("C14"); case_variant_claims("C14");
    // model-based: every sequence up to length 4 over {set(a,1), set(a,2), set(b,1), set(a,{x:1,y:2}), set(a,{x:3}), set(a,{}), remove(a), remove(b), build} (and length 5 without the object values) against a map
    { use serde_json::Value; let vals: Vec<(&str, &str, Value)> = vec![("a", "set(a,1)", json!(1)), ("a", "set(a,2)", json!(2)), ("b", "set(b,1)", json!(1)), ("a", "set(a,{x:1,y:2})", json!({"x": 1, "y": 2})), ("a", "set(a,{x:3})", json!({"x": 3})), ("a", "set(a,{})", json!({}))];
      for (ops, maxlen, sets) in [(9usize, 4u32, 6usize), (6, 5, 3)] { for len in 1..=maxlen { for code in 0..ops.pow(len) {
        let mut b = GenericBuilder::<V4, Local>::default(); let mut model: std::collections::BTreeMap<&str, Value> = Default::default(); let mut c = code; let mut desc = Vec::new();
        for _ in 0..len { let op = c % ops; c /= ops;
            if op < sets { let (k, d, v) = &vals[op]; b.set_claim(CustomClaim::try_from((*k, v.clone())).unwrap()); model.insert(k, v.clone()); desc.push(*d); }
            else if op == sets { b.remove_claim("a"); model.remove("a"); desc.push("remove(a)"); } else if op == sets + 1 { b.remove_claim("b"); model.remove("b"); desc.push("remove(b)"); } else { let _ = b.try_encrypt(&key); desc.push("build"); } }
        let want = serde_json::to_value(&model).unwrap();
        match b.try_encrypt(&key) { Ok(t) => match GenericParser::<V4, Local>::default().parse(lk(&t), key) { Ok(j) => { if j != want { return wit(format!("C14 GenericBuilder after {} then build: the parsed token holds {j}, a map of the calls gives {want}", desc.join(", "))); } } Err(e) => return wit(format!("C14 parse failed after {}: {e}", desc.join(", "))) },
            Err(e) => return wit(format!("C14 build failed after {}: {e}", desc.join(", "))) } } } } }
    // two keys that differ only by an invisible code point stay two members
    { let mut b = GenericBuilder::<V4, Local>::default(); b.set_claim(CustomClaim::try_from(("dup", 1)).unwrap()); b.set_claim(CustomClaim::try_from(("dup\u{feff}", 2)).unwrap());
      if let Ok(t) = b.try_encrypt(&key) { match GenericParser::<V4, Local>::default().parse(lk(&t), key) { Ok(j) => { if j != json!({"dup": 1, "dup\u{feff}": 2}) { return wit(format!("C14 claims dup=1 and dup<U+FEFF>=2 were set but the parsed token holds {j}")); } } Err(e) => return wit(format!("C14 parse failed for keys differing by U+FEFF: {e}")) } } }
    // registered claims through their typed constructors, including empty strings
    for val in ["", "v", " ", "\u{feff}", "Acme, Inc.", "a,b", "billing,shipping", ",", "a;b", "a b", "[\"a\"]", "{\"a\":1}", "null", "true", "12", "https://x.example/a?b=c,d"] { let mut b = GenericBuilder::<V4, Local>::default();
        b.set_claim(IssuerClaim::from("first")); b.set_claim(IssuerClaim::from(val)); b.set_claim(TokenIdentifierClaim::from(val)); b.set_claim(SubjectClaim::from(val)); b.set_claim(AudienceClaim::from(val));
        b.set_claim(ExpirationClaim::try_from("2999-01-01T00:00:00Z").unwrap()); b.set_claim(NotBeforeClaim::try_from("2000-01-01T00:00:00.5+01:00").unwrap()); b.set_claim(IssuedAtClaim::try_from("2000-01-01T00:00:00Z").unwrap());
        if let Ok(t) = b.try_encrypt(&key) { match GenericParser::<V4, Local>::default().parse(lk(&t), key) { Ok(j) => { let want = json!({"iss": val, "jti": val, "sub": val, "aud": val, "exp": "2999-01-01T00:00:00Z", "nbf": "2000-01-01T00:00:00.5+01:00", "iat": "2000-01-01T00:00:00Z"}); if j != want { return wit(format!("C14 registered claims set through their typed constructors {want} but the parsed token holds {j}")); } } Err(e) => return wit(format!("C14 parse failed for registered claims with value {val:?}: {e}")) } } }
    // whatever text a time-claim constructor accepts is what the token carries (both constructor forms)
    for val in ["2039-01-01T00:00:00Z ", "2039-01-01T00:00:00Z\u{2003}(UTC)\u{2003}", "2039-01-01T00:00:00Z\n", "2039-01-01T00:00:00+00:00 trailing", "2039-01-01T00:00:00.50Z", "2039-01-01t00:00:00z"] {
        macro_rules! tc { ($T:ident, $k:expr) => {{ for form in 0..2 { let c = if form == 0 { $T::try_from(lk(val)).ok() } else { $T::try_from(val.to_string()).ok() };
            if let Some(c) = c { let mut b = GenericBuilder::<V4, Local>::default(); b.set_claim(c);
                if let Ok(t) = b.try_encrypt(&key) { match GenericParser::<V4, Local>::default().parse(lk(&t), key) { Ok(j) => { if j[$k] != val { return wit(format!("C14 {}::try_from({} {val:?}) is accepted, but the token carries {} = {} instead of the text that was set", stringify!($T), if form == 0 { "&str" } else { "String" }, $k, j[$k])); } } Err(e) => return wit(format!("C14 parse failed for {} = {val:?}: {e}", $k)) } } } } }} }
        tc!(ExpirationClaim, "exp"); tc!(NotBeforeClaim, "nbf"); tc!(IssuedAtClaim, "iat"); }
    { let mut b = GenericBuilder::<V4, Local>::default(); b.set_claim(IssuerClaim::default()); b.set_claim(TokenIdentifierClaim::default()); b.set_claim(SubjectClaim::default()); b.set_claim(AudienceClaim::default());
      if let Ok(t) = b.try_encrypt(&key) { match GenericParser::<V4, Local>::default().parse(lk(&t), key) { Ok(j) => { let o = j.as_object().cloned().unwrap_or_default(); let mut ks: Vec<&str> = o.keys().map(|k| k.as_str()).collect(); ks.sort(); if ks != ["aud", "iss", "jti", "sub"] { return wit(format!("C14 default registered claims do not appear under their registered keys: {j}")); } } Err(e) => return wit(format!("C14 parse failed for default registered claims: {e}")) } } }
    for vv in 1..=3u8 { let m = "{\"name\":\"Zo\u{eb} M\u{fc}ller\",\"\u{e9}\":\"\u{1F511}\"}"; if let Ok(t) = local::enc(vv, 1, 2, m, &None, &None, false) { if local::dec(vv, 1, &t, &None, &None).ok().as_deref() != Some(m) { return wit(format!("C14 v{vv}.local payload with non-ASCII text does not come back unchanged")); } } }
}
#[cfg(feature = "main_set")]
fn c15() {
    use serde_json::json;
    let key = lkv(PasetoSymmetricKey::<V4, Local>::from(key32(1))); let key3 = lkv(PasetoSymmetricKey::<V3, Local>::from(key32(1)));
    let t_full = v4tok("{\"aud\":\"customers\",\"sub\":\"loyal\",\"n\":5,\"iat\":\"2019-01-01T00:00:00+00:00\",\"c\":{\"a\":[1]}}").0;
    let n3 = Key::<32>::from([5u8; 32]);
    let t3 = Paseto::<V3, Local>::builder().set_payload(Payload::from("{\"aud\":\"customers\",\"n\":5}")).try_encrypt(&key3, &PasetoNonce::<V3, Local>::from(&n3)).unwrap();
    // (description, configure, must_accept)
    macro_rules! case { ($desc:expr, $cfg:expr, $acc:expr) => {{
        let mut p = PasetoParser::<V4, Local>::default(); $cfg(&mut p);
        let r = p.parse(lk(&t_full), key); if r.is_ok() != $acc { return wit(format!("C15 PasetoParser expecting {} on payload with aud=customers,sub=loyal,n=5,iat=2019-01-01T00:00:00+00:00 -> {:?} but must {}", $desc, r.map(|_| "Ok").map_err(|e| e.to_string()), if $acc { "accept" } else { "reject" })); }
        let mut g = GenericParser::<V4, Local>::default(); 
    }} }
    case!("aud=customers", |p: &mut PasetoParser<V4, Local>| { p.check_claim(AudienceClaim::from("customers")); }, true);
    case!("aud=Customers", |p: &mut PasetoParser<V4, Local>| { p.check_claim(AudienceClaim::from("Customers")); }, false);
    case!("iss=x (absent)", |p: &mut PasetoParser<V4, Local>| { p.check_claim(IssuerClaim::from("x")); }, false);
    case!("n=5", |p: &mut PasetoParser<V4, Local>| { p.check_claim(CustomClaim::try_from(("n", 5)).unwrap()); }, true);
    case!("n=\"5\"", |p: &mut PasetoParser<V4, Local>| { p.check_claim(CustomClaim::try_from(("n", "5")).unwrap()); }, false);
    case!("n=6", |p: &mut PasetoParser<V4, Local>| { p.check_claim(CustomClaim::try_from(("n", 6)).unwrap()); }, false);
    case!("iat=2020-01-01T00:00:00+00:00 (differs)", |p: &mut PasetoParser<V4, Local>| { p.check_claim(IssuedAtClaim::try_from("2020-01-01T00:00:00+00:00").unwrap()); }, false);
    case!("iat=2019-01-01T00:00:00+00:00", |p: &mut PasetoParser<V4, Local>| { p.check_claim(IssuedAtClaim::try_from("2019-01-01T00:00:00+00:00").unwrap()); }, true);
    case!("c={a:[1]}", |p: &mut PasetoParser<V4, Local>| { p.check_claim(CustomClaim::try_from(("c", json!({"a": [1]}))).unwrap()); }, true);
    case!("m=null (absent)", |p: &mut PasetoParser<V4, Local>| { p.check_claim(CustomClaim::try_from(("m", serde_json::Value::Null)).unwrap()); }, false);
    { let t_e = v4tok("{\"aud\":\"x\",\"scope\":\"admin\",\"empty\":\"\"}").0;
      for layer in 0..2 { macro_rules! exp { ($desc:expr, $claim:expr, $acc:expr) => {{ let r = if layer == 0 { let mut p = GenericParser::<V4, Local>::default(); p.check_claim($claim); p.parse(lk(&t_e), key).is_ok() } else { let mut p = PasetoParser::<V4, Local>::default(); p.check_claim($claim); p.parse(lk(&t_e), key).is_ok() };
          if r != $acc { return wit(format!("C15 {} expecting {} on payload {{aud:x, scope:admin, empty:\"\"}} -> accepts = {r} but must be {}", if layer == 0 { "GenericParser" } else { "PasetoParser" }, $desc, $acc)); } }} }
        exp!("aud=\"\" (token has aud=x)", AudienceClaim::from(""), false);
        exp!("scope=\"\" (token has scope=admin)", CustomClaim::try_from(("scope", "")).unwrap(), false);
        exp!("empty=\"\" (token has empty=\"\")", CustomClaim::try_from(("empty", "")).unwrap(), true);
        exp!("missing=\"\" (absent)", CustomClaim::try_from(("missing", "")).unwrap(), false); } }
    { for val in ["https://Auth.Example.com", "MixedCase", " padded ", "UPPER", "\u{c9}cole"] { for (cn, ci) in [("iss", 0), ("sub", 1), ("aud", 2), ("jti", 3)] {
        let t_same = v4tok(&format!("{{\"{cn}\":{}}}", serde_json::to_string(val).unwrap())).0; let t_low = v4tok(&format!("{{\"{cn}\":{}}}", serde_json::to_string(&val.to_lowercase()).unwrap())).0; let t_trim = v4tok(&format!("{{\"{cn}\":{}}}", serde_json::to_string(val.trim()).unwrap())).0;
        for layer in 0..2 { macro_rules! run { ($tok:expr) => {{ if layer == 0 { let mut p = GenericParser::<V4, Local>::default(); match ci { 0 => { p.check_claim(IssuerClaim::from(lk(val))); } 1 => { p.check_claim(SubjectClaim::from(lk(val))); } 2 => { p.check_claim(AudienceClaim::from(lk(val))); } _ => { p.check_claim(TokenIdentifierClaim::from(lk(val))); } } p.parse(lk($tok), key).is_ok() }
                                                        else { let mut p = PasetoParser::<V4, Local>::default(); match ci { 0 => { p.check_claim(IssuerClaim::from(lk(val))); } 1 => { p.check_claim(SubjectClaim::from(lk(val))); } 2 => { p.check_claim(AudienceClaim::from(lk(val))); } _ => { p.check_claim(TokenIdentifierClaim::from(lk(val))); } } p.parse(lk($tok), key).is_ok() } }} }
            if !run!(&t_same) { return wit(format!("C15 a parser expecting {cn} = {val:?} rejects a token whose {cn} is exactly that string")); }
            if val.to_lowercase() != val && run!(&t_low) { return wit(format!("C15 a parser expecting {cn} = {val:?} accepts a token whose {cn} is the lower-case form {:?}", val.to_lowercase())); }
            if val.trim() != val && run!(&t_trim) { return wit(format!("C15 a parser expecting {cn} = {val:?} accepts a token whose {cn} is the trimmed form {:?}", val.trim())); } } } } }
    // expected string claims are compared as the strings they are (commas, brackets, digits are just characters)
    { for val in ["billing,shipping", "customers,", "Acme, Inc.", "[\"a\"]", "12", "true", "null"] { let t_s = v4tok(&format!("{{\"aud\":{},\"sub\":{}}}", serde_json::to_string(val).unwrap(), serde_json::to_string(val).unwrap())).0;
        let arr: Vec<&str> = val.split(',').map(|x| x.trim()).filter(|x| !x.is_empty()).collect(); let t_a = v4tok(&format!("{{\"aud\":{},\"sub\":{}}}", serde_json::to_string(&arr).unwrap(), serde_json::to_string(&arr).unwrap())).0;
        let t_p = v4tok(&format!("{{\"aud\":{val},\"sub\":{val}}}")).0;   // the same text as raw JSON (number / bool / null / array) where it is JSON at all
        for layer in 0..2 { for which_claim in 0..2 { macro_rules! run { ($tok:expr) => {{ if layer == 0 { let mut p = GenericParser::<V4, Local>::default(); if which_claim == 0 { p.check_claim(AudienceClaim::from(lk(val))); } else { p.check_claim(SubjectClaim::from(lk(val))); } p.parse(lk($tok), key).is_ok() }
                                                                                              else { let mut p = PasetoParser::<V4, Local>::default(); if which_claim == 0 { p.check_claim(AudienceClaim::from(lk(val))); } else { p.check_claim(SubjectClaim::from(lk(val))); } p.parse(lk($tok), key).is_ok() } }} }
            let cn = if which_claim == 0 { "aud" } else { "sub" };
            if !run!(&t_s) { return wit(format!("C15 a parser expecting {cn} = {val:?} rejects a token whose {cn} is exactly that string")); }
            if val.contains(',') && run!(&t_a) { return wit(format!("C15 a parser expecting {cn} = {val:?} accepts a token whose {cn} is the ARRAY {arr:?}")); }
            if serde_json::from_str::<serde_json::Value>(val).is_ok() && !val.starts_with('"') && run!(&t_p) { return wit(format!("C15 a parser expecting the STRING {cn} = {val:?} accepts a token whose {cn} is the JSON value {val}")); } } } } }
    // an expected claim registered through <typed claim>::default() concerns that claim's registered key (value "")
    { for (k, others) in [("jti", ["iss", "sub", "aud"]), ("iss", ["jti", "sub", "aud"]), ("sub", ["jti", "iss", "aud"]), ("aud", ["jti", "iss", "sub"])] {
        let t_has = v4tok(&format!("{{\"{k}\":\"\"}}")).0; let t_lacks = v4tok(&format!("{{\"{}\":\"\",\"{}\":\"\",\"{}\":\"\"}}", others[0], others[1], others[2])).0;
        for layer in 0..2 { macro_rules! run { ($tok:expr) => {{ if layer == 0 { let mut p = GenericParser::<V4, Local>::default(); match k { "jti" => { p.check_claim(TokenIdentifierClaim::default()); } "iss" => { p.check_claim(IssuerClaim::default()); } "sub" => { p.check_claim(SubjectClaim::default()); } _ => { p.check_claim(AudienceClaim::default()); } } p.parse(lk($tok), key).map(|_| ()).map_err(|e| format!("{e:?}")) }
                                                        else { let mut p = PasetoParser::<V4, Local>::default(); match k { "jti" => { p.check_claim(TokenIdentifierClaim::default()); } "iss" => { p.check_claim(IssuerClaim::default()); } "sub" => { p.check_claim(SubjectClaim::default()); } _ => { p.check_claim(AudienceClaim::default()); } } p.parse(lk($tok), key).map(|_| ()).map_err(|e| format!("{e:?}")) } }} }
            let (a, b) = (run!(&t_has), run!(&t_lacks)); let name = if layer == 0 { "GenericParser" } else { "PasetoParser" };
            if a.is_err() { return wit(format!("C15 {name} expecting the default {k} claim (value \"\") rejects a token whose payload is {{{k}: \"\"}}: {a:?}")); }
            if b.is_ok() { return wit(format!("C15 {name} expecting the default {k} claim accepts a token that has no {k} member (it has {others:?} = \"\")")); } } } }
    { let t_null = v4tok("{\"nickname\":null,\"aud\":\"x\"}").0;
      for layer in 0..2 { let r = if layer == 0 { let mut p = GenericParser::<V4, Local>::default(); p.check_claim(CustomClaim::try_from(("nickname", None::<String>)).unwrap()); p.parse(lk(&t_null), key).is_ok() } else { let mut p = PasetoParser::<V4, Local>::default(); p.check_claim(CustomClaim::try_from(("nickname", None::<String>)).unwrap()); p.parse(lk(&t_null), key).is_ok() };
          if r { return wit(format!("C15 {} expecting nickname (value null) accepts a token whose nickname is an explicit JSON null: a null claim is not present", if layer == 0 { "GenericParser" } else { "PasetoParser" })); }
          let r2 = if layer == 0 { let mut p = GenericParser::<V4, Local>::default(); p.check_claim(CustomClaim::try_from(("nickname", "bob")).unwrap()); p.parse(lk(&t_null), key) } else { let mut p = PasetoParser::<V4, Local>::default(); p.check_claim(CustomClaim::try_from(("nickname", "bob")).unwrap()); p.parse(lk(&t_null), key) };
          match r2 { Ok(_) => return wit("C15 expecting nickname=bob accepts a token whose nickname is null".into()), Err(e) => { if !e.to_string().to_lowercase().contains("missing") && !format!("{e:?}").contains("Missing") { return wit(format!("C15 expecting nickname=bob on a token whose nickname is null is reported as {e:?}, not as a missing claim")); } } } } }
    { let t_p = v4tok("{\"https://example.com/role\":\"admin\",\"~0\":1,\"x/y\":2,\"a\":{\"b\":1}}").0;
      for (desc, k, v, acc) in [("'https://example.com/role'=admin (present)", "https://example.com/role", serde_json::json!("admin"), true), ("'~0'=1 (present)", "~0", serde_json::json!(1), true), ("'x/y'=2 (present)", "x/y", serde_json::json!(2), true),
                                ("'a/b'=1 (absent: only a nested a.b exists)", "a/b", serde_json::json!(1), false), ("'a.b'=1 (absent: only a nested a.b exists)", "a.b", serde_json::json!(1), false), ("'a.b' = {b:1}... no: 'a'={b:1} (present)", "a", serde_json::json!({"b": 1}), true), ("'a[b]'=1 (absent)", "a[b]", serde_json::json!(1), false), ("'a.b.c'=1 (absent)", "a.b.c", serde_json::json!(1), false), ("'x~1y'=2 (absent)", "x~1y", serde_json::json!(2), false), ("'~'=1 (absent)", "~", serde_json::json!(1), false)] {
          let mut p = GenericParser::<V4, Local>::default(); p.check_claim(CustomClaim::try_from((k, v)).unwrap()); let r = p.parse(lk(&t_p), key).is_ok();
          if r != acc { return wit(format!("C15 GenericParser expecting {desc} on payload {{'https://example.com/role':admin, '~0':1, 'x/y':2, a:{{b:1}}}} -> accepts = {r} but must be {acc}")); } } }
    // large integers are compared exactly
    { let t_n = v4tok("{\"uid\":9007199254740993,\"neg\":-9007199254740993,\"big\":18446744073709551615}").0;
      for (desc, claim, acc) in [("uid=9007199254740993", CustomClaim::try_from(("uid", 9007199254740993u64)).unwrap(), true), ("uid=9007199254740992 (differs by one above 2^53)", CustomClaim::try_from(("uid", 9007199254740992u64)).unwrap(), false), ("big=18446744073709551615", CustomClaim::try_from(("big", u64::MAX)).unwrap(), true), ("big=18446744073709551614", CustomClaim::try_from(("big", u64::MAX - 1)).unwrap(), false)] {
          let mut p = GenericParser::<V4, Local>::default(); p.check_claim(claim); let r = p.parse(lk(&t_n), key).is_ok();
          if r != acc { return wit(format!("C15 GenericParser expecting {desc} on payload {{uid:9007199254740993, big:18446744073709551615}} -> accepts = {r} but must be {acc}")); } } }
    // keys and values are compared verbatim
    { let t_ws = v4tok("{\"role\":\"x\",\" tenant\":\"t\",\"iat\":\"2019-01-01T00:00:00Z\",\"exp\":\"2999-01-01T00:00:00Z\",\"nbf\":\"2000-01-01T00:00:00Z\"}").0;
      macro_rules! ws { ($desc:expr, $cfg:expr, $acc:expr) => {{ let mut p = GenericParser::<V4, Local>::default(); $cfg(&mut p); let r = p.parse(lk(&t_ws), key);
          if r.is_ok() != $acc { return wit(format!("C15 GenericParser expecting {} on payload {{role:x, ' tenant':t, iat:2019-01-01T00:00:00Z, exp:2999-01-01T00:00:00Z, nbf:2000-01-01T00:00:00Z}} -> {:?} but must {}", $desc, r.map(|_| "Ok").map_err(|e| e.to_string()), if $acc { "accept" } else { "reject" })); } }} }
      ws!("'role '=x (key with trailing space, absent)", |p: &mut GenericParser<V4, Local>| { p.check_claim(CustomClaim::try_from(("role ", "x")).unwrap()); }, false);
      ws!("role=x", |p: &mut GenericParser<V4, Local>| { p.check_claim(CustomClaim::try_from(("role", "x")).unwrap()); }, true);
      ws!("' tenant'=t (key with leading space, present)", |p: &mut GenericParser<V4, Local>| { p.check_claim(CustomClaim::try_from((" tenant", "t")).unwrap()); }, true);
      ws!("tenant=t (absent)", |p: &mut GenericParser<V4, Local>| { p.check_claim(CustomClaim::try_from(("tenant".to_string(), "t")).unwrap()); }, false);
      ws!("role='x ' (value differs by a space)", |p: &mut GenericParser<V4, Local>| { p.check_claim(CustomClaim::try_from(("role", "x ")).unwrap()); }, false);
      ws!("iat=2019-01-01T00:00:00Z (same spelling)", |p: &mut GenericParser<V4, Local>| { p.check_claim(IssuedAtClaim::try_from("2019-01-01T00:00:00Z").unwrap()); }, true);
      ws!("iat=2019-01-01T00:00:00+00:00 (other spelling of the same instant: not JSON-equal)", |p: &mut GenericParser<V4, Local>| { p.check_claim(IssuedAtClaim::try_from("2019-01-01T00:00:00+00:00").unwrap()); }, false);
      ws!("exp=2999-01-01T00:00:00Z (same spelling)", |p: &mut GenericParser<V4, Local>| { p.check_claim(ExpirationClaim::try_from("2999-01-01T00:00:00Z").unwrap()); }, true);
      ws!("exp=2999-01-01T00:00:00+00:00", |p: &mut GenericParser<V4, Local>| { p.check_claim(ExpirationClaim::try_from("2999-01-01T00:00:00+00:00".to_string()).unwrap()); }, false);
      ws!("nbf=2000-01-01T00:00:00Z (same spelling)", |p: &mut GenericParser<V4, Local>| { p.check_claim(NotBeforeClaim::try_from("2000-01-01T00:00:00Z".to_string()).unwrap()); }, true);
      { let mut p = PasetoParser::<V4, Local>::default(); p.check_claim(IssuedAtClaim::try_from("2019-01-01T00:00:00Z").unwrap()); if let Err(e) = p.parse(lk(&t_ws), key) { return wit(format!("C15 PasetoParser expecting iat=2019-01-01T00:00:00Z rejects a token carrying exactly that value: {e}")); } } }
    // v3.local and order independence with one parser
    { let mut p = GenericParser::<V3, Local>::default(); p.check_claim(AudienceClaim::from("Customers"));
      if p.parse(lk(&t3), key3).is_ok() { return wit("C15 GenericParser<V3,Local> expecting aud=Customers accepts a token with aud=customers".into()); }
      let mut p = PasetoParser::<V3, Local>::default(); p.check_claim(SubjectClaim::from("s"));
      if p.parse(lk(&t3), key3).is_ok() { return wit("C15 PasetoParser<V3,Local> expecting sub=s accepts a token without sub".into()); } }
    { let mut p = GenericParser::<V4, Local>::default(); p.check_claim(AudienceClaim::from("nope"));
      let a = p.parse(lk(&t_full), key).is_ok(); let b = p.parse(lk(&t_full), key).is_ok(); let t_other = v4tok("{\"aud\":\"nope\"}").0; let c = p.parse(lk(&t_other), key).is_ok(); let d = p.parse(lk(&t_full), key).is_ok();
      if a || b || !c || d { return wit(format!("C15 one GenericParser expecting aud=nope parsing [mismatch, mismatch, match, mismatch] gave accept=[{a},{b},{c},{d}]: outcome depends on earlier parses")); } }
}
#[cfg(feature = "main_set")]
fn c16() {
    use std::sync::atomic::{AtomicUsize, Ordering};
    static CALLS: AtomicUsize = AtomicUsize::new(0);
    let key = lkv(PasetoSymmetricKey::<V4, Local>::from(key32(1)));
    let t = v4tok("{\"sub\":\"alice\",\"k\":\"\",\"exp\":\"2019-01-01T00:00:00+00:00\"}").0;
    fn reject(_k: &str, _v: &serde_json::Value) -> Result<(), PasetoClaimError> { CALLS.fetch_add(1, Ordering::SeqCst); Err(PasetoClaimError::CustomValidation("x".into())) }
    fn accept(_k: &str, _v: &serde_json::Value) -> Result<(), PasetoClaimError> { CALLS.fetch_add(1, Ordering::SeqCst); Ok(()) }
    // rejecting validator must fail the parse, whatever the claim value
    for (desc, which) in [("sub registered with the same value as the token", 0), ("custom key k whose token value is the empty string", 1), ("absent key z", 2)] {
        let mut p = GenericParser::<V4, Local>::default();
        match which { 0 => { p.validate_claim(SubjectClaim::from("alice"), &reject); } 1 => { p.validate_claim(CustomClaim::try_from("k").unwrap(), &reject); } _ => { p.validate_claim(CustomClaim::try_from("z").unwrap(), &reject); } }
        CALLS.store(0, Ordering::SeqCst);
        let r = p.parse(lk(&t), key);
        if r.is_ok() || CALLS.load(Ordering::SeqCst) != 1 { return wit(format!("C16 a rejecting validator for {desc} was run {} time(s) and parse returned {:?}", CALLS.load(Ordering::SeqCst), r.map(|_| "Ok").map_err(|e| e.to_string()))); }
    }
    for layer in 0..2 { for (desc, which) in [("present claim sub", 0), ("absent claim role", 1)] {
        CALLS.store(0, Ordering::SeqCst);
        let r = if layer == 0 { let mut p = GenericParser::<V4, Local>::default(); if which == 0 { p.validate_claim(SubjectClaim::from("x"), &reject); } else { p.validate_claim(CustomClaim::try_from("role").unwrap(), &reject); } p.parse(lk(&v4tok("{\"sub\":\"alice\",\"exp\":\"2999-01-01T00:00:00Z\"}").0), key).is_ok() }
                else { let mut p = PasetoParser::<V4, Local>::default(); if which == 0 { p.validate_claim(SubjectClaim::from("x"), &reject); } else { p.validate_claim(CustomClaim::try_from("role").unwrap(), &reject); } p.parse(lk(&v4tok("{\"sub\":\"alice\",\"exp\":\"2999-01-01T00:00:00Z\"}").0), key).is_ok() };
        if r || CALLS.load(Ordering::SeqCst) != 1 { return wit(format!("C16 {}: a rejecting validator registered for the {desc} ran {} time(s) and parse accepted = {r} (must run once, with null for an absent claim, and fail the parse)", if layer == 0 { "GenericParser" } else { "PasetoParser" }, CALLS.load(Ordering::SeqCst))); } } }
    // default parser: exp equal to the placeholder must still be validated (expired)
    if PasetoParser::<V4, Local>::default().parse(lk(&t), key).is_ok() { return wit("C16/C11 default PasetoParser accepts exp=2019-01-01T00:00:00+00:00 (its validator was bypassed)".into()); }
    // re-registration: the later validator must be honoured
    { let mut p = PasetoParser::<V4, Local>::default(); p.validate_claim(ExpirationClaim::default(), &reject); let t2 = v4tok("{\"exp\":\"2999-01-01T00:00:00Z\"}").0;
      CALLS.store(0, Ordering::SeqCst); let r = p.parse(lk(&t2), key); if r.is_ok() { return wit("C16 validator registered for exp after PasetoParser::default() is never run (parse Ok)".into()); } }
    // validators registered through extend_validation_claims
    { let mut vm: ValidatorMap = std::collections::HashMap::new(); vm.insert("foo".to_string(), Box::new(reject));
      let mut p = GenericParser::<V4, Local>::default(); p.extend_validation_claims(vm); CALLS.store(0, Ordering::SeqCst);
      if p.parse(lk(&t), key).is_ok() { return wit("C16 a rejecting validator registered with extend_validation_claims is not honoured (parse Ok)".into()); } }
    // a validator registered through a typed claim's default() sees the registered key and the payload's value
    { use std::sync::Mutex; static SEEN: Mutex<Vec<(String, String)>> = Mutex::new(Vec::new());
      fn record(k: &str, v: &serde_json::Value) -> Result<(), PasetoClaimError> { SEEN.lock().unwrap().push((k.to_string(), v.to_string())); Ok(()) }
      let t5 = v4tok("{\"jti\":\"id-7\",\"iss\":\"me\",\"sub\":\"alice\",\"aud\":\"you\",\"iat\":\"2000-01-01T00:00:00Z\"}").0;
      let mut p = GenericParser::<V4, Local>::default();
      p.validate_claim(TokenIdentifierClaim::default(), &record); p.validate_claim(IssuerClaim::default(), &record); p.validate_claim(SubjectClaim::default(), &record); p.validate_claim(AudienceClaim::default(), &record); p.validate_claim(IssuedAtClaim::default(), &record);
      SEEN.lock().unwrap().clear(); let r = p.parse(lk(&t5), key); let mut seen = SEEN.lock().unwrap().clone(); seen.sort();
      let mut want: Vec<(String, String)> = [("jti", "\"id-7\""), ("iss", "\"me\""), ("sub", "\"alice\""), ("aud", "\"you\""), ("iat", "\"2000-01-01T00:00:00Z\"")].iter().map(|(a, b)| (a.to_string(), b.to_string())).collect(); want.sort();
      if r.is_err() || seen != want { return wit(format!("C16 validators registered with <typed claim>::default() for jti/iss/sub/aud/iat were invoked with {seen:?} (parse {:?}) but must each run once with the registered key and the payload's value {want:?}", r.map(|_| "Ok").map_err(|e| e.to_string()))); } }
    { use std::sync::Mutex; static SEEN2: Mutex<Vec<(String, String)>> = Mutex::new(Vec::new());
      fn record2(k: &str, v: &serde_json::Value) -> Result<(), PasetoClaimError> { SEEN2.lock().unwrap().push((k.to_string(), v.to_string())); if v == "blocked" { Err(PasetoClaimError::CustomValidation("blocked".into())) } else { Ok(()) } }
      let t8 = v4tok("{\"status \":\"blocked\",\"status\":\"ok\",\" scope\":\"blocked\"}").0;
      for k in ["status ", " scope"] { for layer in 0..2 { SEEN2.lock().unwrap().clear();
          let r = if layer == 0 { let mut p = GenericParser::<V4, Local>::default(); p.validate_claim(CustomClaim::try_from(k).unwrap(), &record2); p.parse(lk(&t8), key).is_ok() } else { let mut p = PasetoParser::<V4, Local>::default(); p.validate_claim(CustomClaim::try_from(k).unwrap(), &record2); p.parse(lk(&t8), key).is_ok() };
          let seen = SEEN2.lock().unwrap().clone();
          if r || seen != vec![(k.to_string(), "\"blocked\"".to_string())] { return wit(format!("C16 a validator registered for the key {k:?} was invoked with {seen:?} and parse accepted = {r}; it must be invoked once with ({k:?}, \"blocked\") and its rejection honoured")); } } } }
    // a validator is handed the payload's actual value: blank and white-space strings, false, 0, [], {} are values, not absence
    { use std::sync::Mutex; static SEEN3: Mutex<Vec<(String, String)>> = Mutex::new(Vec::new());
      fn record3(k: &str, v: &serde_json::Value) -> Result<(), PasetoClaimError> { SEEN3.lock().unwrap().push((k.to_string(), v.to_string())); Ok(()) }
      for raw in ["\"\"", "\" \"", "\" \\t\"", "\"\\n\"", "false", "0", "[]", "{}", "\"null\"", "0.0", "\"\\u0000\""] { let t9 = v4tok(&format!("{{\"k\":{raw},\"iss\":{raw}}}")).0;
        for layer in 0..2 { for which_claim in 0..2 { SEEN3.lock().unwrap().clear();
          let ok = if layer == 0 { let mut p = GenericParser::<V4, Local>::default(); if which_claim == 0 { p.validate_claim(CustomClaim::try_from("k").unwrap(), &record3); } else { p.validate_claim(IssuerClaim::default(), &record3); } p.parse(lk(&t9), key).is_ok() }
                   else { let mut p = PasetoParser::<V4, Local>::default(); if which_claim == 0 { p.validate_claim(CustomClaim::try_from("k").unwrap(), &record3); } else { p.validate_claim(IssuerClaim::default(), &record3); } p.parse(lk(&t9), key).is_ok() };
          let want_v: serde_json::Value = serde_json::from_str(raw).unwrap(); let cn = if which_claim == 0 { "k" } else { "iss" };
          let seen = SEEN3.lock().unwrap().clone();
          if !ok || seen != vec![(cn.to_string(), want_v.to_string())] { return wit(format!("C16 a validator registered for {cn:?} on a token whose {cn} is {raw}: parse ok = {ok}, the validator was invoked with {seen:?}; it must run once with ({cn:?}, {want_v})")); } } } } }
    // every successful parse runs the validators again (public and local, generic and batteries-included)
    { let (kp, pk) = R::ed_keypair(9); let k64 = lkv(Key::<64>::from(kp)); let k32 = lkv(Key::<32>::from(pk)); let pkk = lkv(PasetoAsymmetricPublicKey::<V4, Public>::from(k32));
      let mut pb = PasetoBuilder::<V4, Public>::default(); pb.set_claim(SubjectClaim::from("alice"));
      if let Ok(tp) = pb.build(&PasetoAsymmetricPrivateKey::<V4, Public>::from(k64)) { let tp = lk(&tp);
        let mut p = PasetoParser::<V4, Public>::default(); p.validate_claim(SubjectClaim::from("alice"), &accept); CALLS.store(0, Ordering::SeqCst);
        let a = p.parse(tp, pkk).is_ok(); let b = p.parse(tp, pkk).is_ok(); let c = p.parse(tp, pkk).is_ok();
        if !(a && b && c) || CALLS.load(Ordering::SeqCst) != 3 { return wit(format!("C16 one PasetoParser<V4,Public> parsing the same token three times: accepted = ({a},{b},{c}), validator ran {} time(s) (must run once per successful parse)", CALLS.load(Ordering::SeqCst))); }
        let mut g = GenericParser::<V4, Public>::default(); g.validate_claim(SubjectClaim::from("alice"), &accept); CALLS.store(0, Ordering::SeqCst); let _ = g.parse(tp, pkk); let _ = g.parse(tp, pkk);
        if CALLS.load(Ordering::SeqCst) != 2 { return wit(format!("C16 one GenericParser<V4,Public> parsing the same token twice ran the validator {} time(s)", CALLS.load(Ordering::SeqCst))); } }
      let mut p = PasetoParser::<V4, Local>::default(); p.validate_claim(SubjectClaim::from("alice"), &accept); let t6 = v4tok("{\"sub\":\"alice\"}").0; CALLS.store(0, Ordering::SeqCst); let _ = p.parse(lk(&t6), key); let _ = p.parse(lk(&t6), key);
      if CALLS.load(Ordering::SeqCst) != 2 { return wit(format!("C16 one PasetoParser<V4,Local> parsing the same token twice ran the validator {} time(s)", CALLS.load(Ordering::SeqCst))); } }
    { use std::collections::HashMap; let t7 = v4tok("{\"sub\":\"alice\"}").0;
      let mut p = GenericParser::<V4, Local>::default(); p.validate_claim(SubjectClaim::from("alice"), &accept);
      let mut vm: ValidatorMap = HashMap::new(); vm.insert("sub".to_string(), Box::new(reject)); p.extend_validation_claims(vm);
      if p.parse(lk(&t7), key).is_ok() { return wit("C16 validate_claim(sub, accept) followed by extend_validation_claims({sub: reject}): the later (rejecting) validator is not honoured".into()); }
      let mut p = GenericParser::<V4, Local>::default(); let mut vm: ValidatorMap = HashMap::new(); vm.insert("sub".to_string(), Box::new(accept)); p.extend_validation_claims(vm); p.validate_claim(SubjectClaim::from("alice"), &reject);
      if p.parse(lk(&t7), key).is_ok() { return wit("C16 extend_validation_claims({sub: accept}) followed by validate_claim(sub, reject): the later (rejecting) validator is not honoured".into()); } }
    // a validator stays in force when an expected value is registered for the same key, before or after it
    { let t10 = v4tok("{\"sub\":\"alice\",\"exp\":\"2999-01-01T00:00:00Z\"}").0;
      for order in 0..2 { for layer in 0..2 { CALLS.store(0, Ordering::SeqCst);
        let ok = if layer == 0 { let mut p = GenericParser::<V4, Local>::default(); if order == 0 { p.validate_claim(SubjectClaim::from("alice"), &reject); p.check_claim(SubjectClaim::from("alice")); } else { p.check_claim(SubjectClaim::from("alice")); p.validate_claim(SubjectClaim::from("alice"), &reject); } p.parse(lk(&t10), key).is_ok() }
                 else { let mut p = PasetoParser::<V4, Local>::default(); if order == 0 { p.validate_claim(SubjectClaim::from("alice"), &reject); p.check_claim(SubjectClaim::from("alice")); } else { p.check_claim(SubjectClaim::from("alice")); p.validate_claim(SubjectClaim::from("alice"), &reject); } p.parse(lk(&t10), key).is_ok() };
        if ok && order == 1 { return wit(format!("C16 {}: check_claim(sub = alice) then validate_claim(sub, rejecting): the parse succeeds (validator calls: {})", if layer == 0 { "GenericParser" } else { "PasetoParser" }, CALLS.load(Ordering::SeqCst))); }
        if ok && order == 0 { return wit(format!("C16 {}: validate_claim(sub, rejecting) then check_claim(sub = alice): the parse succeeds - the expected-value registration removed the validator (validator calls: {})", if layer == 0 { "GenericParser" } else { "PasetoParser" }, CALLS.load(Ordering::SeqCst))); } } } }
    // never invoked on unauthenticated tokens
    { let mut p = GenericParser::<V4, Local>::default(); p.validate_claim(SubjectClaim::from("x"), &accept); CALLS.store(0, Ordering::SeqCst);
      let mut bad = t.clone(); bad.pop(); bad.push('A'); let _ = p.parse(lk(&bad), key); let wrong = lkv(PasetoSymmetricKey::<V4, Local>::from(key32(9))); let _ = p.parse(lk(&t), wrong);
      if CALLS.load(Ordering::SeqCst) != 0 { return wit("C16 a validator ran on a token that did not authenticate".into()); }
      let _ = p.parse(lk(&t), key); if CALLS.load(Ordering::SeqCst) != 1 { return wit(format!("C16 accepting validator ran {} times on a successful parse", CALLS.load(Ordering::SeqCst))); } }
    // every local version, both parser layers: the right key first, then the same token under another key - no validator call, no success
    { macro_rules! wrongkey { ($V:ty, $name:expr) => {{ let k1 = lkv(PasetoSymmetricKey::<$V, Local>::from(key32(1))); let k2 = lkv(PasetoSymmetricKey::<$V, Local>::from(key32(2)));
          let mut b = GenericBuilder::<$V, Local>::default(); b.set_claim(SubjectClaim::from("alice"));
          if let Ok(tv) = b.try_encrypt(k1) { let tv = lk(&tv); for layer in 0..2 { CALLS.store(0, Ordering::SeqCst);
              let (first, second) = if layer == 0 { let mut p = GenericParser::<$V, Local>::default(); p.validate_claim(SubjectClaim::from("alice"), &accept); let a = p.parse(tv, k1).is_ok(); CALLS.store(0, Ordering::SeqCst); (a, p.parse(tv, k2).is_ok()) }
                                    else { let mut p = PasetoParser::<$V, Local>::default(); p.validate_claim(SubjectClaim::from("alice"), &accept); let a = p.parse(tv, k1).is_ok(); CALLS.store(0, Ordering::SeqCst); (a, p.parse(tv, k2).is_ok()) };
              if !first { return wit(format!("C16 {}<{},Local> rejects an authentic token under its own key", if layer == 0 { "GenericParser" } else { "PasetoParser" }, $name)); }
              if second || CALLS.load(Ordering::SeqCst) != 0 { return wit(format!("C16 {}<{},Local>: after parsing a token under its own key, the same token under ANOTHER key: accepted = {second}, validator ran {} time(s) (must not authenticate)", if layer == 0 { "GenericParser" } else { "PasetoParser" }, $name, CALLS.load(Ordering::SeqCst))); } } } }} }
      wrongkey!(V1, "V1"); wrongkey!(V2, "V2"); wrongkey!(V3, "V3"); wrongkey!(V4, "V4"); }
    // a token bound to footer "ft" and assertion "ia" presented to parsers configured with near misses of either: no validator call, no success
    { let mut b = GenericBuilder::<V4, Local>::default(); b.set_claim(SubjectClaim::from("alice")); b.set_footer(Footer::from("ft")); b.set_implicit_assertion(ImplicitAssertion::from("ia"));
      if let Ok(tb) = b.try_encrypt(key) { let tb = lk(&tb);
        for (f2, i2) in [("ft", " ia"), ("ft", "ia "), ("ft", "ia\n"), ("ft", "IA"), ("ft", ""), ("ft", "\tia"), (" ft", "ia"), ("ft ", "ia"), ("ft\n", "ia"), ("FT", "ia"), ("ft", "ia\u{a0}"), ("ft\u{feff}", "ia")] {
          for layer in 0..2 { CALLS.store(0, Ordering::SeqCst);
            let ok = if layer == 0 { let mut p = GenericParser::<V4, Local>::default(); p.validate_claim(SubjectClaim::from("alice"), &accept); p.set_footer(Footer::from(lk(f2))); p.set_implicit_assertion(ImplicitAssertion::from(lk(i2))); p.parse(tb, key).is_ok() }
                     else { let mut p = PasetoParser::<V4, Local>::default(); p.validate_claim(SubjectClaim::from("alice"), &accept); p.set_footer(Footer::from(lk(f2))); p.set_implicit_assertion(ImplicitAssertion::from(lk(i2))); p.parse(tb, key).is_ok() };
            if ok || CALLS.load(Ordering::SeqCst) != 0 { return wit(format!("C16 {}<V4,Local>: a token bound to footer \"ft\" and assertion \"ia\", parser configured with footer {f2:?} and assertion {i2:?}: accepted = {ok}, validator ran {} time(s) (must not authenticate, no validator may run)", if layer == 0 { "GenericParser" } else { "PasetoParser" }, CALLS.load(Ordering::SeqCst))); } } } } }
    // a token whose header names another protocol has not authenticated for this parser: no validator call, no success
    { let ts = v4tok("{\"sub\":\"alice\"}").0;
      for other in ["v3.local.", "v2.local.", "v1.local.", "v4.public.", "v2.public.", "v5.local.", "v4.loca1.", "V4.local."] { let tt = lk(&ts.replacen("v4.local.", other, 1));
        for layer in 0..2 { CALLS.store(0, Ordering::SeqCst);
          let ok = if layer == 0 { let mut p = GenericParser::<V4, Local>::default(); p.validate_claim(SubjectClaim::from("alice"), &accept); p.parse(tt, key).is_ok() } else { let mut p = PasetoParser::<V4, Local>::default(); p.validate_claim(SubjectClaim::from("alice"), &accept); p.parse(tt, key).is_ok() };
          if ok || CALLS.load(Ordering::SeqCst) != 0 { return wit(format!("C16 {}<V4,Local> given an authentic v4.local token relabelled {other:?}: accepted = {ok}, validator ran {} time(s) (the token is not a v4.local token: no validator may run)", if layer == 0 { "GenericParser" } else { "PasetoParser" }, CALLS.load(Ordering::SeqCst))); } } }
      let (kp, pk) = R::ed_keypair(9); let k64 = lkv(Key::<64>::from(kp)); let k32 = lkv(Key::<32>::from(pk)); let pkk = lkv(PasetoAsymmetricPublicKey::<V4, Public>::from(k32));
      let mut b = GenericBuilder::<V4, Public>::default(); b.set_claim(SubjectClaim::from("alice"));
      if let Ok(tp) = b.try_sign(&PasetoAsymmetricPrivateKey::<V4, Public>::from(k64)) {
        for other in ["v2.public.", "v4.local.", "v3.public.", "v1.public.", "v5.public."] { let tt = lk(&tp.replacen("v4.public.", other, 1));
          for layer in 0..2 { CALLS.store(0, Ordering::SeqCst);
            let ok = if layer == 0 { let mut p = GenericParser::<V4, Public>::default(); p.validate_claim(SubjectClaim::from("alice"), &accept); p.parse(tt, pkk).is_ok() } else { let mut p = PasetoParser::<V4, Public>::default(); p.validate_claim(SubjectClaim::from("alice"), &accept); p.parse(tt, pkk).is_ok() };
            if ok || CALLS.load(Ordering::SeqCst) != 0 { return wit(format!("C16 {}<V4,Public> given an authentic v4.public token relabelled {other:?}: accepted = {ok}, validator ran {} time(s)", if layer == 0 { "GenericParser" } else { "PasetoParser" }, CALLS.load(Ordering::SeqCst))); } } } } }
    { let (kp, pk) = R::ed_keypair(9); let (_kq, pq) = R::ed_keypair(10); let k64 = lkv(Key::<64>::from(kp)); let k32 = lkv(Key::<32>::from(pk)); let kother = lkv(Key::<32>::from(pq));
      macro_rules! pubcase { ($V:ty, $name:expr) => {{
          let mut b = GenericBuilder::<$V, Public>::default(); b.set_claim(SubjectClaim::from("alice"));
          if let Ok(tp) = b.try_sign(&PasetoAsymmetricPrivateKey::<$V, Public>::from(k64)) {
              let good = lkv(PasetoAsymmetricPublicKey::<$V, Public>::from(k32)); let wrong = lkv(PasetoAsymmetricPublicKey::<$V, Public>::from(kother));
              let mut forged = tp.clone(); forged.pop(); forged.push(if tp.ends_with('A') { 'B' } else { 'A' });
              let mut p = GenericParser::<$V, Public>::default(); p.validate_claim(SubjectClaim::from("alice"), &reject); CALLS.store(0, Ordering::SeqCst);
              let r1 = p.parse(lk(&forged), good); let r2 = p.parse(lk(&tp), wrong);
              if CALLS.load(Ordering::SeqCst) != 0 { return wit(format!("C16 GenericParser<{},Public>: a validator ran {} time(s) on tokens that did not authenticate (forged signature / wrong key)", $name, CALLS.load(Ordering::SeqCst))); }
              for r in [r1, r2] { if let Err(e) = r { if !matches!(e, GenericParserError::CipherError { .. }) { return wit(format!("C16 GenericParser<{},Public>: an unauthenticated token is reported as {e:?} instead of a cipher error (claims were looked at first)", $name)); } } else { return wit(format!("C16 GenericParser<{},Public> accepts an unauthenticated token", $name)); } }
          } }} }
      pubcase!(V4, "V4"); pubcase!(V2, "V2");
      let repo = std::env::args().nth(2).unwrap_or("/repo".into());
      let (skf, pkf) = (std::fs::read(format!("{repo}/tests/v1_public_test_vectors_private_key.pk8")).or_else(|_| std::fs::read("/repo/tests/v1_public_test_vectors_private_key.pk8")), std::fs::read(format!("{repo}/tests/v1_public_test_vectors_public_key.der")).or_else(|_| std::fs::read("/repo/tests/v1_public_test_vectors_public_key.der")));
      if let (Ok(sk), Ok(pkd)) = (skf, pkf) { let sk = lkv(sk); let pkd = lkv(pkd);
          let mut b = GenericBuilder::<V1, Public>::default(); b.set_claim(SubjectClaim::from("alice"));
          if let Ok(tp) = b.try_sign(&PasetoAsymmetricPrivateKey::<V1, Public>::from(&sk[..])) {
              let good = lkv(PasetoAsymmetricPublicKey::<V1, Public>::from(&pkd[..]));
              let mut forged = tp.clone(); forged.pop(); forged.push(if tp.ends_with('A') { 'B' } else { 'A' });
              let mut p = GenericParser::<V1, Public>::default(); p.validate_claim(SubjectClaim::from("alice"), &reject); CALLS.store(0, Ordering::SeqCst);
              let r1 = p.parse(lk(&forged), good);
              if CALLS.load(Ordering::SeqCst) != 0 { return wit(format!("C16 GenericParser<V1,Public>: a validator ran {} time(s) on a token whose signature does not verify", CALLS.load(Ordering::SeqCst))); }
              if let Err(e) = r1 { if !matches!(e, GenericParserError::CipherError { .. }) { return wit(format!("C16 GenericParser<V1,Public>: a forged token is reported as {e:?} instead of a cipher error")); } } else { return wit("C16 GenericParser<V1,Public> accepts a forged token".into()); } } } }
}
#[cfg(feature = "main_set")]
fn c17() {
    let key = lkv(PasetoSymmetricKey::<V4, Local>::from(key32(1))); let key3 = lkv(PasetoSymmetricKey::<V3, Local>::from(key32(1)));
    // ops: 0..=3 set claim a,b,iss,sub ; 4 ack ; 5 footer ; 6 build
    let mut seqs: Vec<Vec<u8>> = vec![vec![]];
    for _ in 0..5 { let mut nx = vec![]; for s in &seqs { for op in 0..7u8 { let mut t = s.clone(); t.push(op); nx.push(t); } } seqs.extend(nx); seqs.sort(); seqs.dedup(); }
    for s in seqs.iter().filter(|s| s.len() <= 5) { for ver in [4u8, 3] {
        let mut ops = s.clone(); ops.push(6);
        macro_rules! run { ($V:ty, $key:expr) => {{
            let mut b = PasetoBuilder::<$V, Local>::default(); let mut seen = std::collections::HashSet::new(); let mut dup = false;
            for (ix, op) in ops.iter().enumerate() { match op {
                0 => { b.set_claim(CustomClaim::try_from(("a", ix as u64)).unwrap()); if !seen.insert(0) { dup = true; } }
                1 => { b.set_claim(CustomClaim::try_from(("b", ix as u64)).unwrap()); if !seen.insert(1) { dup = true; } }
                2 => { b.set_claim(IssuerClaim::from("i")); if !seen.insert(2) { dup = true; } }
                3 => { b.set_claim(SubjectClaim::from("s")); if !seen.insert(3) { dup = true; } }
                4 => { b.set_no_expiration_danger_acknowledged(); }
                5 => { b.set_footer(Footer::from("ft")); }
                _ => { let r = b.build($key);
                       if let Err(GenericBuilderError::DuplicateTopLevelPayloadClaim(k)) = &r { let names = ["a", "b", "iss", "sub"]; let dups: Vec<&str> = (0..4).filter(|i| ops[..ix].iter().filter(|o| **o == *i as u8).count() > 1).map(|i| names[i]).collect();
                           if dup && !dups.contains(&k.as_str()) { return wit(format!("C17 PasetoBuilder<{},Local> ops {ops:?} (0=set a,1=set b,2=iss,3=sub,4=ack,5=footer,6=build): the duplicate-claim error at step {ix} names {k:?}, but the keys supplied more than once are {dups:?}", stringify!($V))); } }
                       if dup && r.is_ok() { return wit(format!("C17 PasetoBuilder<{},Local> ops {ops:?} (0=set a,1=set b,2=iss,3=sub,4=ack,5=footer,6=build): a key was supplied twice but build at step {ix} returned a token", stringify!($V))); }
                       if !dup { if let Err(e) = r { return wit(format!("C17 PasetoBuilder<{},Local> ops {ops:?}: no repeated key but build failed: {e}", stringify!($V))); } } }
            } }
        }} }
        if ver == 4 { run!(V4, &key) } else if s.len() <= 4 { run!(V3, &key3) }
    }}
    // keys that differ by surrounding white space or case are different keys: no duplicate, and each appears under its own name
    { for ks in [vec!["a", "a ", " a"], vec!["k", "K"], vec!["x", "x\t", "x\n"], vec!["Sub", "sub "], vec!["id", " id ", "ID"]] { let mut b = PasetoBuilder::<V4, Local>::default();
          for (n, k) in ks.iter().enumerate() { b.set_claim(CustomClaim::try_from((k.to_string(), n as u64)).unwrap()); }
          match b.build(&key) { Ok(t) => { if let Ok(j) = GenericParser::<V4, Local>::default().parse(lk(&t), key) { for (n, k) in ks.iter().enumerate() { if j[*k] != n as u64 { return wit(format!("C17 PasetoBuilder<V4,Local> with the distinct custom keys {ks:?}: the token does not carry {k:?} = {n}: {j}")); } } } }
              Err(e) => return wit(format!("C17 PasetoBuilder<V4,Local> with the distinct custom keys {ks:?} (no key repeated): build fails: {e}")) } } }
    // blank values count like any other value; and long runs of distinct keys followed by a repeat of any earlier one
    { for k in ["iss", "sub", "aud", "jti"] { for (v1, v2) in [("", ""), ("", "x"), ("x", "")] { let mut b = PasetoBuilder::<V4, Local>::default();
          for v in [v1, v2] { match k { "iss" => { b.set_claim(IssuerClaim::from(lk(v))); } "sub" => { b.set_claim(SubjectClaim::from(lk(v))); } "aud" => { b.set_claim(AudienceClaim::from(lk(v))); } _ => { b.set_claim(TokenIdentifierClaim::from(lk(v))); } } }
          if b.build(&key).is_ok() { return wit(format!("C17 PasetoBuilder<V4,Local>: {k} supplied twice with values ({v1:?}, {v2:?}) but build returns a token")); } } }
      let all = ["exp", "nbf", "iat", "iss", "sub", "aud", "jti", "c1", "c2", "c3", "c4", "c5", "c6", "c7", "c8", "c9", "c10", "c11", "c12", "c13"];
      let setn = |b: &mut PasetoBuilder<V4, Local>, k: &str| { match k { "exp" => { b.set_claim(ExpirationClaim::try_from("2999-01-01T00:00:00Z").unwrap()); } "nbf" => { b.set_claim(NotBeforeClaim::try_from("2000-01-01T00:00:00Z").unwrap()); } "iat" => { b.set_claim(IssuedAtClaim::try_from("2000-01-01T00:00:00Z").unwrap()); }
          "iss" => { b.set_claim(IssuerClaim::from("i")); } "sub" => { b.set_claim(SubjectClaim::from("s")); } "aud" => { b.set_claim(AudienceClaim::from("a")); } "jti" => { b.set_claim(TokenIdentifierClaim::from("j")); } other => { b.set_claim(CustomClaim::try_from((other.to_string(), 1)).unwrap()); } } };
      for start in [0usize, 3, 7] { for n in 1..=(all.len() - start) { let ks = &all[start..start + n];
          { let mut b = PasetoBuilder::<V4, Local>::default(); for k in ks { setn(&mut b, k); } if let Err(e) = b.build(&key) { return wit(format!("C17 PasetoBuilder<V4,Local>: {n} distinct keys {ks:?}, none repeated, but build fails: {e}")); } }
          for j in [0usize, n / 2, n - 1] { let mut b = PasetoBuilder::<V4, Local>::default(); for k in ks { setn(&mut b, k); } setn(&mut b, ks[j]);
              match b.build(&key) { Ok(_) => return wit(format!("C17 PasetoBuilder<V4,Local>: {n} distinct keys {ks:?} and then {:?} again: build returns a token", ks[j])),
                  Err(GenericBuilderError::DuplicateTopLevelPayloadClaim(named)) => { if named != ks[j] { return wit(format!("C17 PasetoBuilder<V4,Local>: {n} distinct keys and then {:?} again: the error names {named:?}", ks[j])); } }
                  Err(e) => return wit(format!("C17 PasetoBuilder<V4,Local>: {n} distinct keys and then {:?} again: build fails with {e:?}, not a duplicate-claim error", ks[j])) } } } } }
    // every top-level key, the patterns that matter: K K build / K build K build / K other build K build build / K other build (fine)
    let far = "2999-01-01T00:00:00Z";
    let setk = |b: &mut PasetoBuilder<V4, Local>, k: &str, n: u64| { match k { "exp" => { b.set_claim(ExpirationClaim::try_from(far).unwrap()); } "nbf" => { b.set_claim(NotBeforeClaim::try_from("2000-01-01T00:00:00Z").unwrap()); } "iat" => { b.set_claim(IssuedAtClaim::try_from("2000-01-01T00:00:00Z").unwrap()); }
        "iss" => { b.set_claim(IssuerClaim::from("i")); } "sub" => { b.set_claim(SubjectClaim::from("s")); } "aud" => { b.set_claim(AudienceClaim::from("a")); } "jti" => { b.set_claim(TokenIdentifierClaim::from("j")); } other => { b.set_claim(CustomClaim::try_from((other.to_string(), n)).unwrap()); } } };
    for k in ["exp", "nbf", "iat", "iss", "sub", "aud", "jti", "a", "b"] { for other in ["iss", "jti", "b", "exp"] { if other == k { continue; }
        for pat in [vec!["K", "K", "B"], vec!["K", "B", "K", "B"], vec!["K", "O", "B", "K", "B", "B"], vec!["K", "K", "O", "B"], vec!["O", "K", "B", "O", "B"], vec!["K", "O", "B"], vec!["K", "B", "O", "B"]] {
            let mut b = PasetoBuilder::<V4, Local>::default(); let mut count: std::collections::HashMap<&str, u32> = Default::default(); let mut n = 0u64;
            for (ix, st) in pat.iter().enumerate() { match *st { "K" => { setk(&mut b, k, n); *count.entry(k).or_default() += 1; n += 1; } "O" => { setk(&mut b, other, n); *count.entry(other).or_default() += 1; n += 1; }
                _ => { let dups: Vec<&str> = count.iter().filter(|(_, c)| **c > 1).map(|(k, _)| *k).collect(); let r = b.build(&key);
                       let desc = pat.iter().map(|s| match *s { "K" => format!("set_claim({k})"), "O" => format!("set_claim({other})"), _ => "build".to_string() }).collect::<Vec<_>>().join(", ");
                       match r { Ok(_) => { if !dups.is_empty() { return wit(format!("C17 PasetoBuilder<V4,Local>: {desc}: the build at step {ix} returns a token although {dups:?} was supplied more than once")); } }
                                 Err(GenericBuilderError::DuplicateTopLevelPayloadClaim(named)) => { if dups.is_empty() { return wit(format!("C17 PasetoBuilder<V4,Local>: {desc}: no key was supplied twice but the build at step {ix} reports a duplicate of {named:?}")); }
                                     if !dups.contains(&named.as_str()) { return wit(format!("C17 PasetoBuilder<V4,Local>: {desc}: the duplicate-claim error at step {ix} names {named:?}, the repeated key(s) are {dups:?}")); } }
                                 Err(e) => { return wit(format!("C17 PasetoBuilder<V4,Local>: {desc}: the build at step {ix} fails with {e:?}, not a duplicate-claim error")); } } } } } } } }
}
#[cfg(feature = "main_set")]
fn c17_time_claims() {
    let key = lkv(PasetoSymmetricKey::<V4, Local>::from(key32(1)));
    // ops: 0 set a ; 1 exp ; 2 nbf ; 3 iat ; 4 ack ; 5 iss ; 6 build
    let mut seqs: Vec<Vec<u8>> = vec![vec![]];
    for _ in 0..4 { let mut nx = vec![]; for s in &seqs { for op in 0..7u8 { let mut t = s.clone(); t.push(op); nx.push(t); } } seqs.extend(nx); seqs.sort(); seqs.dedup(); }
    for s in seqs.iter().filter(|s| s.len() <= 4) {
        let mut ops = s.clone(); ops.push(6);
        let mut b = PasetoBuilder::<V4, Local>::default(); let mut seen = std::collections::HashSet::new(); let mut dup = false; let mut acked = false; let mut latitude = false;
        for (ix, op) in ops.iter().enumerate() { match op {
            0 => { b.set_claim(CustomClaim::try_from(("a", ix as u64)).unwrap()); if !seen.insert(0) { dup = true; } }
            1 => { b.set_claim(ExpirationClaim::try_from("2999-01-01T00:00:00Z").unwrap()); if !seen.insert(1) { dup = true; } else if acked { latitude = true; } }
            2 => { b.set_claim(NotBeforeClaim::try_from("2000-01-01T00:00:00Z").unwrap()); if !seen.insert(2) { dup = true; } }
            3 => { b.set_claim(IssuedAtClaim::try_from("2000-01-01T00:00:00Z").unwrap()); if !seen.insert(3) { dup = true; } }
            4 => { b.set_no_expiration_danger_acknowledged(); acked = true; }
            5 => { b.set_claim(IssuerClaim::from("i")); if !seen.insert(5) { dup = true; } }
            _ => { let r = b.build(&key);
                   if dup && r.is_ok() { return wit(format!("C17 PasetoBuilder<V4,Local> ops {ops:?} (0=set a,1=exp,2=nbf,3=iat,4=acknowledge no expiration,5=iss,6=build): a key was supplied twice but build at step {ix} returned a token")); }
                   if !dup && !latitude { match r { Err(e) => return wit(format!("C17 PasetoBuilder<V4,Local> ops {ops:?} (0=set a,1=exp,2=nbf,3=iat,4=ack,5=iss,6=build): no repeated key but build failed: {e}")),
                       Ok(t) => { if let Ok(j) = GenericParser::<V4, Local>::default().parse(lk(&t), key) {
                           if seen.contains(&2) && j["nbf"] != "2000-01-01T00:00:00Z" { return wit(format!("C17 ops {ops:?}: caller-supplied nbf did not replace the default: {j}")); }
                           if seen.contains(&3) && j["iat"] != "2000-01-01T00:00:00Z" { return wit(format!("C17 ops {ops:?}: caller-supplied iat did not replace the default: {j}")); }
                           if seen.contains(&1) && !acked && j["exp"] != "2999-01-01T00:00:00Z" { return wit(format!("C17 ops {ops:?}: caller-supplied exp did not replace the default: {j}")); } } } } } }
        } }
    }
}
#[cfg(feature = "main_set")]
fn c18() {
    let reserved = ["iss", "sub", "aud", "exp", "nbf", "iat", "jti"];
    let mut keys: Vec<String> = vec!["".into(), " ".into(), "a".into(), "iss.".into(), "exp.id".into(), "sub.sub".into(), ".iss".into(), "x.iss".into(), "aud/x".into(), "jti:1".into(), "nbf-1".into(), "iat_".into(), "exp[0]".into()];
    for r in reserved { for v in [r.to_string(), r.to_uppercase(), format!(" {r}"), format!("{r} "), format!("{r}\0"), format!("{}{}", &r[..1].to_uppercase(), &r[1..]), format!("{r}s"), r[..2].to_string()] { keys.push(v); } }
    let alpha = ['i', 's', 'u', 'b', 'e', 'x', 'p', 'a', 't', 'j', 'n', 'f', 'd'];
    for a in alpha { for b in alpha { for c in alpha { keys.push([a, b, c].iter().collect()); } } }
    for k in &keys { let must_fail = reserved.contains(&k.as_str());
        let r1 = CustomClaim::try_from(k.as_str()).is_err(); let r2 = CustomClaim::try_from((k.as_str(), 1)).is_err(); let r3 = CustomClaim::try_from((k.clone(), "v")).is_err();
        if must_fail { for (form, e) in [("&str", CustomClaim::try_from(k.as_str()).err().map(|e| format!("{e:?}"))), ("(&str, T)", CustomClaim::try_from((k.as_str(), 1)).err().map(|e| format!("{e:?}"))), ("(String, T)", CustomClaim::try_from((k.clone(), "v")).err().map(|e| format!("{e:?}")))] {
            if let Some(e) = e { if !e.starts_with("Reserved") { return wit(format!("C18 CustomClaim with the reserved key {k:?} ({form} form) fails with {e}, not with the reserved-key error")); } } } }
        if r1 != must_fail || r2 != must_fail || r3 != must_fail { return wit(format!("C18 CustomClaim with key {k:?}: rejected by (&str, (&str,T), (String,T)) constructors = ({r1},{r2},{r3}) but reserved = {must_fail}")); } }
    let good = ["2019-01-01T00:00:00Z", "2019-01-01T00:00:00+00:00", "2039-12-31T23:59:59.123456789Z", "2019-01-01T00:00:00.5-23:59", "1971-06-01T12:00:00+05:30",
                "2019-01-01T00:00:00.1234567+01:00", "2019-01-01T00:00:00.123456789+01:00", "2019-01-01T00:00:00.123456789-11:30", "9999-12-31T23:59:59Z", "0001-01-01T00:00:00Z", "2020-02-29T23:59:59Z", "2019-01-01T00:00:00.000000000Z",
                "1990-12-31T23:59:60Z", "2016-12-31T23:59:60+00:00", "1998-12-31T23:59:60.5Z", "2015-06-30T23:59:60-00:00", "2000-02-29T12:00:00Z", "2019-01-01T00:00:00+23:59"];
    let bad = ["", "hello", " 2019-01-01T00:00:00Z", "x2019-01-01T00:00:00Z", "T00:00:00Z", "12345", "tomorrow", "2023-13-01T00:00:00Z", "2023-02-32T00:00:00Z", "2023-00-10T00:00:00Z", "2023-01-00T00:00:00Z", "0000-00-00T00:00:00-00:00", "2023-99-99T00:00:00Z", "2023-1-01T00:00:00Z", "23-01-01T00:00:00Z"];
    for g in good {
        macro_rules! chk { ($T:ident) => {{ match $T::try_from(g) { Ok(c) => { use rusty_paseto::generic::PasetoClaim; let j = serde_json::to_value(&c).unwrap(); if j[c.get_key()] != g { return wit(format!("C18 {}::try_from({g:?}) does not keep the text verbatim: {j}", stringify!($T))); } } Err(e) => return wit(format!("C18 {}::try_from({g:?}) rejects an RFC 3339 date-time: {e}", stringify!($T))) }
            if $T::try_from(g.to_string()).is_err() { return wit(format!("C18 {}::try_from(String {g:?}) rejects an RFC 3339 date-time", stringify!($T))); } }} }
        chk!(ExpirationClaim); chk!(NotBeforeClaim); chk!(IssuedAtClaim);
    }
    std::panic::set_hook(Box::new(|_| {}));
    let long1 = format!("a{}", "\u{e9}".repeat(40)); let long2 = "\u{e9}".repeat(100); let long3 = format!("{}\u{1F511}{}", "x".repeat(46), "y".repeat(30)); let long4 = format!("{}\u{20ac}", "x".repeat(254)); let long5 = format!("2019-01-01T00:00:00Z{}", "\u{e9}".repeat(70));
    for b in [long1.as_str(), long2.as_str(), long3.as_str(), long4.as_str(), long5.as_str(), "ab\u{20ac}", "abc\u{e9}", "\u{e9}t\u{e9} 2019", "\u{65e5}\u{672c}\u{8a9e}", "2019\u{2212}01-01", "20\u{e9}9-01-01T00:00:00Z", "\u{1F511}", "a\u{1F511}b", "2019-01-01T00:00:00\u{e9}"] {
        if !no_panic(AssertUnwindSafe(|| { let _ = ExpirationClaim::try_from(b); let _ = NotBeforeClaim::try_from(b); let _ = IssuedAtClaim::try_from(b); let _ = ExpirationClaim::try_from(b.to_string()); let _ = NotBeforeClaim::try_from(b.to_string()); let _ = IssuedAtClaim::try_from(b.to_string()); })) { return wit(format!("C18 a time claim constructor PANICS on {b:?} instead of returning an error")); }
        if !no_panic(AssertUnwindSafe(|| { let _ = CustomClaim::try_from(b); let _ = CustomClaim::try_from((b, 1)); let _ = CustomClaim::try_from((b.to_string(), 1)); })) { return wit(format!("C18 a CustomClaim constructor PANICS on key {b:?}")); } }
    for b in bad { if ExpirationClaim::try_from(b).is_ok() || NotBeforeClaim::try_from(b).is_ok() || IssuedAtClaim::try_from(b).is_ok() || ExpirationClaim::try_from(b.to_string()).is_ok() || NotBeforeClaim::try_from(b.to_string()).is_ok() || IssuedAtClaim::try_from(b.to_string()).is_ok() { return wit(format!("C18 a time claim constructor accepts {b:?}, which does not start with an ISO 8601 date")); } }
}
#[cfg(feature = "main_set")]
fn c02() { public_tamper(); c08(); 
    // every footer of the shared list (incl. ones that look like serialized keys or unbalanced JSON) and odd claim keys, v2/v4 public, all three layers
    { let (kp, pk) = R::ed_keypair(9); let k64 = lkv(Key::<64>::from(kp)); let k32 = lkv(Key::<32>::from(pk));
      for f in footers() { let ff = f.as_deref().map(lk);
        macro_rules! one { ($V:ty, $name:expr, $($ia:tt)*) => {{
            let sk = PasetoAsymmetricPrivateKey::<$V, Public>::from(k64); let pkk = lkv(PasetoAsymmetricPublicKey::<$V, Public>::from(k32));
            let mut c = Paseto::<$V, Public>::builder(); c.set_payload(Payload::from("{\"a\":1}")); if let Some(f) = ff { c.set_footer(Footer::from(f)); }
            match c.try_sign(&sk) { Ok(t) => { if Paseto::<$V, Public>::try_verify(&t, pkk, ff.map(Footer::from) $($ia)*).ok().as_deref() != Some("{\"a\":1}") { return wit(format!("C02 {} core: a token signed with footer {:?} does not verify back to its message", $name, f.as_ref().map(|x| &x[..x.len().min(40)]))); } }
                                    Err(e) => return wit(format!("C02 {} core: signing with footer {:?} fails: {e:?}", $name, f.as_ref().map(|x| &x[..x.len().min(40)]))) }
            let mut g = GenericBuilder::<$V, Public>::default(); g.set_claim(AudienceClaim::from("a")); if let Some(f) = ff { g.set_footer(Footer::from(f)); }
            match g.try_sign(&sk) { Ok(t) => { let mut p = GenericParser::<$V, Public>::default(); if let Some(f) = ff { p.set_footer(Footer::from(f)); } if p.parse(lk(&t), pkk).is_err() { return wit(format!("C02 {} generic layer: a token signed with footer {:?} is not accepted by the matching parser", $name, f.as_ref().map(|x| &x[..x.len().min(40)]))); } }
                                    Err(e) => return wit(format!("C02 GenericBuilder<{},Public>: signing with footer {:?} fails: {e:?}", $name, f.as_ref().map(|x| &x[..x.len().min(40)]))) }
            let mut pb = PasetoBuilder::<$V, Public>::default(); if let Some(f) = ff { pb.set_footer(Footer::from(f)); }
            match pb.build(&sk) { Ok(t) => { let mut p = PasetoParser::<$V, Public>::default(); if let Some(f) = ff { p.set_footer(Footer::from(f)); } if p.parse(lk(&t), pkk).is_err() { return wit(format!("C02 {} batteries-included layer: a token built with footer {:?} is not accepted by the matching parser", $name, f.as_ref().map(|x| &x[..x.len().min(40)]))); } }
                                  Err(e) => return wit(format!("C02 PasetoBuilder<{},Public>: build with footer {:?} fails: {e:?}", $name, f.as_ref().map(|x| &x[..x.len().min(40)]))) }
        }} }
        one!(V4, "v4.public", , None); one!(V2, "v2.public", ); }
      for k in ["k\"q", "back\\slash", "tab\there", "nl\nkey", "\u{1}", "zw\u{200b}sp", "cafe\u{301}", "\u{7f}", "a\u{0}b", "\u{2028}", "emoji\u{1F511}", "'", "{", "user.role", "a/b"] {
        let sk = PasetoAsymmetricPrivateKey::<V4, Public>::from(k64); let pkk = lkv(PasetoAsymmetricPublicKey::<V4, Public>::from(k32));
        let mut g = GenericBuilder::<V4, Public>::default(); g.set_claim(CustomClaim::try_from((k, "v")).unwrap());
        match g.try_sign(&sk) { Ok(t) => match GenericParser::<V4, Public>::default().parse(lk(&t), pkk) { Ok(j) => { if j != serde_json::json!({k: "v"}) { return wit(format!("C02 a v4.public token built with the claim {k:?} = \"v\" parses to {j}")); } }
                                   Err(e) => return wit(format!("C02 a v4.public token built by GenericBuilder with the claim key {k:?} is not accepted by the matching parser: {e:?}")) },
                                Err(e) => return wit(format!("C02 GenericBuilder<V4,Public> with claim key {k:?} fails: {e:?}")) } } }
    // RSA (v1.public) round trip with the repository's test key
    let repo = std::env::args().nth(2).unwrap_or("/repo".into());
    if let (Ok(sk), Ok(pk)) = (std::fs::read(format!("{repo}/tests/v1_public_test_vectors_private_key.pk8")), std::fs::read(format!("{repo}/tests/v1_public_test_vectors_public_key.der"))) {
        for m in ["", "{\"a\":1}", &"x".repeat(300)] { for f in [None, Some("ft")] {
            let mut b = Paseto::<V1, Public>::builder(); b.set_payload(Payload::from(m)); if let Some(f) = f { b.set_footer(Footer::from(f)); }
            match b.try_sign(&PasetoAsymmetricPrivateKey::<V1, Public>::from(&sk[..])) { Ok(t) => match Paseto::<V1, Public>::try_verify(&t, &PasetoAsymmetricPublicKey::<V1, Public>::from(&pk[..]), f.map(Footer::from)) { Ok(p) if p == m => {}, o => return wit(format!("C02 v1.public round trip failed for message len {} footer {f:?}: {:?}", m.len(), o.map_err(|e| format!("{e:?}")))) }, Err(e) => return wit(format!("C02 v1.public try_sign failed: {e:?}")) }
        }}
    }
    { let pool = rsakeys::pool(); let (kp0, pk0) = R::ed_keypair(9); let k64 = lkv(Key::<64>::from(kp0)); let k32 = lkv(Key::<32>::from(pk0));
      for m in msgs() { if m.len() > 400 { continue; }
        let mut b = Paseto::<V1, Public>::builder(); b.set_payload(Payload::from(m.as_str()));
        match b.try_sign(&PasetoAsymmetricPrivateKey::<V1, Public>::from(&pool[0].0[..])) { Ok(t) => match Paseto::<V1, Public>::try_verify(&t, &PasetoAsymmetricPublicKey::<V1, Public>::from(&pool[0].1[..]), None) { Ok(p) if p == m => {}, o => return wit(format!("C02 v1.public: message {m:?} signed, verified result is {:?}", o.map_err(|e| format!("{e:?}")))) }, Err(e) => return wit(format!("C02 v1.public try_sign failed for {m:?}: {e:?}")) }
        let mut b = Paseto::<V2, Public>::builder(); b.set_payload(Payload::from(m.as_str()));
        match b.try_sign(&PasetoAsymmetricPrivateKey::<V2, Public>::from(k64)) { Ok(t) => match Paseto::<V2, Public>::try_verify(&t, &PasetoAsymmetricPublicKey::<V2, Public>::from(k32), None) { Ok(p) if p == m => {}, o => return wit(format!("C02 v2.public: message {m:?} signed, verified result is {:?}", o.map_err(|e| format!("{e:?}")))) }, Err(e) => return wit(format!("C02 v2.public try_sign failed for {m:?}: {e:?}")) }
        let mut b = Paseto::<V4, Public>::builder(); b.set_payload(Payload::from(m.as_str()));
        match b.try_sign(&PasetoAsymmetricPrivateKey::<V4, Public>::from(k64)) { Ok(t) => match Paseto::<V4, Public>::try_verify(&t, &PasetoAsymmetricPublicKey::<V4, Public>::from(k32), None, None) { Ok(p) if p == m => {}, o => return wit(format!("C02 v4.public: message {m:?} signed, verified result is {:?}", o.map_err(|e| format!("{e:?}")))) }, Err(e) => return wit(format!("C02 v4.public try_sign failed for {m:?}: {e:?}")) } } }
    // two RSA key pairs used one after the other (and again in the other order): each token verifies under its own key only
    { let pool = rsakeys::pool();
      for order in [[0usize, 1, 0, 1], [1, 0, 1, 0]] { for ix in order { let (sk, pkd) = &pool[ix]; let (_, other_pk) = &pool[1 - ix];
          let mut b = Paseto::<V1, Public>::builder(); b.set_payload(Payload::from("{\"k\":1}"));
          match b.try_sign(&PasetoAsymmetricPrivateKey::<V1, Public>::from(&sk[..])) {
              Ok(t) => { if Paseto::<V1, Public>::try_verify(&t, &PasetoAsymmetricPublicKey::<V1, Public>::from(&pkd[..]), None).is_err() { return wit(format!("C02 v1.public: a token signed with RSA key pair #{ix} (after other key pairs were used in the same thread) does not verify under its own public key")); }
                         if Paseto::<V1, Public>::try_verify(&t, &PasetoAsymmetricPublicKey::<V1, Public>::from(&other_pk[..]), None).is_ok() { return wit(format!("C04 v1.public: a token signed with RSA key pair #{ix} verifies under the OTHER key pair's public key")); } }
              Err(e) => return wit(format!("C02 v1.public try_sign failed: {e:?}")) } } } }
    let (kp, pk) = R::ed_keypair(9); let k64 = lkv(Key::<64>::from(kp)); let k32 = lkv(Key::<32>::from(pk));
    // message sizes around block boundaries and long footers, both Ed25519 versions
    for n in [4095usize, 4096, 4097, 5000, 12288, 12289, 65536, 70_000] { let m = "m".repeat(n);
        let mut b = Paseto::<V4, Public>::builder(); b.set_payload(Payload::from(m.as_str()));
        match b.try_sign(&PasetoAsymmetricPrivateKey::<V4, Public>::from(k64)) { Ok(t) => match Paseto::<V4, Public>::try_verify(&t, &PasetoAsymmetricPublicKey::<V4, Public>::from(k32), None, None) { Ok(p) if p == m => {}, o => return wit(format!("C02 v4.public round trip of a {n}-byte message fails: {:?}", o.map(|p| p.len()).map_err(|e| format!("{e:?}")))) }, Err(e) => return wit(format!("C02 v4.public try_sign of a {n}-byte message failed: {e:?}")) }
        let mut b = Paseto::<V2, Public>::builder(); b.set_payload(Payload::from(m.as_str()));
        match b.try_sign(&PasetoAsymmetricPrivateKey::<V2, Public>::from(k64)) { Ok(t) => match Paseto::<V2, Public>::try_verify(&t, &PasetoAsymmetricPublicKey::<V2, Public>::from(k32), None) { Ok(p) if p == m => {}, o => return wit(format!("C02 v2.public round trip of a {n}-byte message fails: {:?}", o.map(|p| p.len()).map_err(|e| format!("{e:?}")))) }, Err(e) => return wit(format!("C02 v2.public try_sign of a {n}-byte message failed: {e:?}")) } }
    for n in [255usize, 256, 767, 768, 769, 1024, 1025, 4096, 9000] { let f = "F".repeat(n);
        let mut b = Paseto::<V4, Public>::builder(); b.set_payload(Payload::from("{}")); b.set_footer(Footer::from(f.as_str()));
        match b.try_sign(&PasetoAsymmetricPrivateKey::<V4, Public>::from(k64)) { Ok(t) => { if let Err(e) = Paseto::<V4, Public>::try_verify(&t, &PasetoAsymmetricPublicKey::<V4, Public>::from(k32), Some(Footer::from(f.as_str())), None) { return wit(format!("C02 v4.public round trip with a {n}-byte footer fails: {e:?}")); } } Err(e) => return wit(format!("C02 v4.public try_sign with a {n}-byte footer failed: {e:?}")) }
        let mut b = Paseto::<V2, Public>::builder(); b.set_payload(Payload::from("{}")); b.set_footer(Footer::from(f.as_str()));
        match b.try_sign(&PasetoAsymmetricPrivateKey::<V2, Public>::from(k64)) { Ok(t) => { if let Err(e) = Paseto::<V2, Public>::try_verify(&t, &PasetoAsymmetricPublicKey::<V2, Public>::from(k32), Some(Footer::from(f.as_str()))) { return wit(format!("C02 v2.public round trip with a {n}-byte footer fails: {e:?}")); } } Err(e) => return wit(format!("C02 v2.public try_sign with a {n}-byte footer failed: {e:?}")) } }
    let mut b = GenericBuilder::<V4, Public>::default(); b.set_claim(AudienceClaim::from("c"));
    for round in 0..2 { match b.try_sign(&PasetoAsymmetricPrivateKey::<V4, Public>::from(k64)) { Ok(t) => { let r = GenericParser::<V4, Public>::default().parse(&t, &PasetoAsymmetricPublicKey::<V4, Public>::from(k32)); if r.as_ref().map(|j| j["aud"] != "c").unwrap_or(true) { return wit(format!("C02 GenericBuilder/GenericParser<V4,Public> sign #{round}: {:?}", r.map_err(|e| e.to_string()))); } } Err(e) => return wit(format!("C02 GenericBuilder<V4,Public>::try_sign failed: {e}")) } }
    let mut pb = PasetoBuilder::<V2, Public>::default();
    match pb.build(&PasetoAsymmetricPrivateKey::<V2, Public>::from(k64)) { Ok(t) => { if let Err(e) = PasetoParser::<V2, Public>::default().parse(lk(&t), lkv(PasetoAsymmetricPublicKey::<V2, Public>::from(k32))) { return wit(format!("C02 PasetoBuilder/PasetoParser<V2,Public>: {e}")); } } Err(e) => return wit(format!("C02 PasetoBuilder<V2,Public>::build failed: {e}")) }
}

// ---------------------------------------------------------------------------------------------
// v3.public feature set
// ---------------------------------------------------------------------------------------------
#[cfg(feature = "v3pub_set")]
fn v3pub(pid: &str) {
    use p384::ecdsa::{signature::DigestVerifier, Signature, SigningKey, VerifyingKey};
    use p384::elliptic_curve::sec1::ToEncodedPoint;
    use sha2::Digest;
    std::panic::set_hook(Box::new(|_| {}));
    let skb = [0x11u8; 48]; let sk = SigningKey::from_bytes((&skb[..]).into()).unwrap();
    let pkc = VerifyingKey::from(&sk).to_encoded_point(true); let pkb: [u8; 49] = pkc.as_bytes().try_into().unwrap();
    let k48 = lkv(Key::<48>::from(skb)); let k49 = lkv(Key::<49>::from(pkb));
    let priv_ = lkv(PasetoAsymmetricPrivateKey::<V3, Public>::from(k48)); let pub_ = lkv(PasetoAsymmetricPublicKey::<V3, Public>::try_from(k49).unwrap());
    let ref_verify = |t: &str, f: &str, i: &str| -> Option<Vec<u8>> { let rest = t.strip_prefix("v3.public.")?; let d = R::unb64(rest.split('.').next()?)?; if d.len() < 96 { return None; } let (m, s) = d.split_at(d.len() - 96);
        let pre = R::pae(&[&pkb, b"v3.public.", m, f.as_bytes(), i.as_bytes()]); let mut h = sha2::Sha384::new(); h.update(&pre); VerifyingKey::from(&sk).verify_digest(h, &Signature::try_from(s).ok()?).ok()?; Some(m.to_vec()) };
    // several key pairs: compressed points with tag 0x02 and with tag 0x03 must both be usable, at every layer
    { let mut tags = std::collections::BTreeSet::new();
      for seed in 1u8..=12 { let skb2 = [seed.wrapping_mul(17).wrapping_add(1); 48]; let Ok(sk2) = SigningKey::from_bytes((&skb2[..]).into()) else { continue };
        let pkb2: [u8; 49] = VerifyingKey::from(&sk2).to_encoded_point(true).as_bytes().try_into().unwrap(); tags.insert(pkb2[0]);
        let k48b = lkv(Key::<48>::from(skb2)); let k49b = lkv(Key::<49>::from(pkb2)); let privb = lkv(PasetoAsymmetricPrivateKey::<V3, Public>::from(k48b));
        let pubb = match PasetoAsymmetricPublicKey::<V3, Public>::try_from(k49b) { Ok(p) => lkv(p), Err(e) => return wit(format!("{pid} a valid compressed P-384 public key with SEC1 tag {:#04x} is refused by PasetoAsymmetricPublicKey::<V3,Public>::try_from: {e:?}", pkb2[0])) };
        let mut b = Paseto::<V3, Public>::builder(); b.set_payload(Payload::from("{\"a\":1}"));
        match b.try_sign(privb) { Ok(t) => { if Paseto::<V3, Public>::try_verify(&t, pubb, None, None).ok().as_deref() != Some("{\"a\":1}") { return wit(format!("{pid} v3.public: a token signed under a key pair whose public point has SEC1 tag {:#04x} does not verify back to its message", pkb2[0])); } }
            Err(e) => return wit(format!("{pid} v3.public try_sign fails under key pair #{seed}: {e:?}")) }
        let mut pbd = PasetoBuilder::<V3, Public>::default(); if let Ok(t) = pbd.build(privb) { if PasetoParser::<V3, Public>::default().parse(lk(&t), pubb).is_err() { return wit(format!("{pid} PasetoBuilder/PasetoParser<V3,Public> round trip fails under a key pair whose public point has SEC1 tag {:#04x}", pkb2[0])); } } }
      if tags.len() < 2 { eprintln!("note: only one SEC1 tag among the test key pairs"); } }
    for m in ["", "{\"a\":1}", &"x".repeat(130)] { for f in [None, Some("ft"), Some(" ")] { for i in [None, Some("ia")] {
        let mut b = Paseto::<V3, Public>::builder(); b.set_payload(Payload::from(m)); if let Some(f) = f { b.set_footer(Footer::from(f)); } if let Some(i) = i { b.set_implicit_assertion(ImplicitAssertion::from(i)); }
        for round in 0..2 {
            let t = match b.try_sign(priv_) { Ok(t) => t, Err(e) => return wit(format!("{pid} v3.public try_sign failed: {e:?}")) };
            match Paseto::<V3, Public>::try_verify(&t, pub_, f.map(Footer::from), i.map(ImplicitAssertion::from)) { Ok(p) if p == m => {}, o => return wit(format!("{pid} v3.public round trip (sign #{round} from one builder) failed: message len {} footer {f:?} assertion {i:?} -> {:?}", m.len(), o.map_err(|e| format!("{e:?}")))) }
            if ref_verify(&t, f.unwrap_or(""), i.unwrap_or("")).as_deref() != Some(m.as_bytes()) { return wit(format!("{pid} v3.public token (sign #{round} from one builder, footer {f:?}, assertion {i:?}) does not verify under an independent P-384 verifier: {t}")); }
            let seg = t.split('.').count(); if (seg == 4) != !f.unwrap_or("").is_empty() { return wit(format!("{pid} v3.public footer segment presence wrong for footer {f:?}: {t}")); }
            for (f2, i2) in [(Some("other"), i), (f, Some("other")), (None, i)] { if f2.unwrap_or("") == f.unwrap_or("") && i2.unwrap_or("") == i.unwrap_or("") { continue; } if Paseto::<V3, Public>::try_verify(&t, pub_, f2.map(Footer::from), i2.map(ImplicitAssertion::from)).is_ok() { return wit(format!("{pid} v3.public token built with footer {f:?}/assertion {i:?} verifies with {f2:?}/{i2:?}")); } }
        }
    }}}
    { use p384::ecdsa::signature::DigestSigner;
      for (mi, m) in ["", "{\"a\":1}", "{\"data\":\"this is a signed message\"}", "x", "yy", "zzz", "0123456789", "{\"n\":2}", "{\"n\":3}", "{\"n\":4}", "{\"n\":5}", "{\"n\":6}"].iter().enumerate() { for f in ["", "ft"] {
          let pre = R::pae(&[&pkb, b"v3.public.", m.as_bytes(), f.as_bytes(), b""]); let mut h = sha2::Sha384::new(); h.update(&pre);
          let sig: Signature = sk.sign_digest(h); let (r, sv) = sig.split_scalars(); let neg = Signature::from_scalars(r, -*sv).unwrap();
          for (form, sg) in [("as produced", sig), ("with s negated (equally valid, the spec has no low-S rule)", neg)] {
              let mut p = m.as_bytes().to_vec(); p.extend_from_slice(&sg.to_bytes()); let t = R::token("v3.public.", &p, f.as_bytes());
              match Paseto::<V3, Public>::try_verify(&t, pub_, if f.is_empty() { None } else { Some(Footer::from(f)) }, None) { Ok(got) if got == *m => {}, o => return wit(format!("{pid} v3.public rejects a token of an independent P-384 signer (message #{mi}, footer {f:?}, signature {form}): {:?}", o.map_err(|e| format!("{e:?}")))) } } } } }
    for n in 0..=400usize { let s = format!("v3.public.{}", R::b64(&vec![0u8; n])); if catch_unwind(AssertUnwindSafe(|| { let _ = Paseto::<V3, Public>::try_verify(&s, pub_, None, None); let _ = PasetoParser::<V3, Public>::default().parse(lk(&s), pub_); })).is_err() { return wit(format!("{pid} v3.public try_verify/parse panics on a {n}-byte payload: {s}")); } }
    // default validators on v3.public (C11/C12/C16)
    for (payload, what) in [("{\"exp\":\"2000-01-01T00:00:00Z\"}", "an expired exp"), ("{\"nbf\":\"2999-01-01T00:00:00Z\"}", "a future nbf"), ("{\"nbf\":12345}", "a non-timestamp nbf"), ("{\"exp\":true}", "a non-timestamp exp")] {
        let mut b = Paseto::<V3, Public>::builder(); b.set_payload(Payload::from(payload));
        if let Ok(t) = b.try_sign(priv_) { if PasetoParser::<V3, Public>::default().parse(lk(&t), lkv(PasetoAsymmetricPublicKey::<V3, Public>::try_from(lkv(Key::<49>::from(pkb))).unwrap())).is_ok() { return wit(format!("{pid} default PasetoParser<V3,Public> accepts a token with {what}: {payload}")); } }
    }
    // C04: after a successful verification under K, the same token must still be rejected under the point with the other sign byte
    { let mut b = Paseto::<V3, Public>::builder(); b.set_payload(Payload::from("{}")); if let Ok(t) = b.try_sign(priv_) {
        let _ = Paseto::<V3, Public>::try_verify(&t, pub_, None, None);
        let mut other = pkb; other[0] ^= 1; let ko = Key::<49>::from(other);
        if let Ok(po) = PasetoAsymmetricPublicKey::<V3, Public>::try_from(&ko) { if Paseto::<V3, Public>::try_verify(&t, &po, None, None).is_ok() { return wit(format!("C04 v3.public token signed for K verifies under -K (sign byte flipped) after a verification under K: {t}")); } } } }
    // layers: generic and batteries-included, footer / assertion given to both sides, a builder used twice
    for fo in [None, Some("ft")] { for ia in [None, Some("ia")] {
        let mut gb = GenericBuilder::<V3, Public>::default(); gb.set_claim(AudienceClaim::from("customers")).set_claim(CustomClaim::try_from(("n", 5)).unwrap());
        if let Some(f) = fo { gb.set_footer(Footer::from(f)); } if let Some(i) = ia { gb.set_implicit_assertion(ImplicitAssertion::from(i)); }
        for round in 0..2 { match gb.try_sign(priv_) { Ok(t) => { let t = lk(&t);
            let mut gp = GenericParser::<V3, Public>::default(); if let Some(f) = fo { gp.set_footer(Footer::from(f)); } if let Some(i) = ia { gp.set_implicit_assertion(ImplicitAssertion::from(i)); }
            match gp.parse(t, pub_) { Ok(j) if j == serde_json::json!({"aud": "customers", "n": 5}) => {}, o => return wit(format!("{pid} GenericBuilder/GenericParser<V3,Public> footer {fo:?} assertion {ia:?} sign #{round}: parse gives {:?}", o.map_err(|e| e.to_string()))) }
            for (f2, i2) in [(Some("other"), ia), (fo, Some("other")), (None, ia), (fo, None)] { if f2.unwrap_or("") == fo.unwrap_or("") && i2.unwrap_or("") == ia.unwrap_or("") { continue; }
                let mut gp = GenericParser::<V3, Public>::default(); if let Some(f) = f2 { gp.set_footer(Footer::from(f)); } if let Some(i) = i2 { gp.set_implicit_assertion(ImplicitAssertion::from(i)); }
                if gp.parse(t, pub_).is_ok() { return wit(format!("{pid} GenericParser<V3,Public>: token built with footer {fo:?} / assertion {ia:?} accepted with {f2:?} / {i2:?}")); } }
            let parts: Vec<&str> = t.split('.').collect(); if let Some(d) = R::unb64(parts[2]) { let mut e = d.clone(); e[0] ^= 1; let mut t2 = format!("v3.public.{}", R::b64(&e)); if parts.len() == 4 { t2.push('.'); t2.push_str(parts[3]); }
                if !d.is_empty() { let mut gp = GenericParser::<V3, Public>::default(); if let Some(f) = fo { gp.set_footer(Footer::from(f)); } if let Some(i) = ia { gp.set_implicit_assertion(ImplicitAssertion::from(i)); } if gp.parse(lk(&t2), pub_).is_ok() { return wit(format!("C03 GenericParser<V3,Public> accepts an altered token (first message byte changed)")); } } }
        } Err(e) => return wit(format!("{pid} GenericBuilder<V3,Public>::try_sign #{round} failed: {e}")) } }
        let mut pbb = PasetoBuilder::<V3, Public>::default(); pbb.set_claim(SubjectClaim::from("s1")); if let Some(f) = fo { pbb.set_footer(Footer::from(f)); } if let Some(i) = ia { pbb.set_implicit_assertion(ImplicitAssertion::from(i)); }
        for round in 0..2 { match pbb.build(priv_) { Ok(t) => { let mut pp = PasetoParser::<V3, Public>::default(); if let Some(f) = fo { pp.set_footer(Footer::from(f)); } if let Some(i) = ia { pp.set_implicit_assertion(ImplicitAssertion::from(i)); }
            match pp.parse(lk(&t), pub_) { Ok(j) if j["sub"] == "s1" && j["exp"].is_string() && j["iat"].is_string() && j["nbf"].is_string() => {}, o => return wit(format!("{pid} PasetoBuilder/PasetoParser<V3,Public> footer {fo:?} assertion {ia:?} build #{round}: parse gives {:?}", o.map_err(|e| e.to_string()))) } } Err(e) => return wit(format!("{pid} PasetoBuilder<V3,Public>::build #{round} failed: {e}")) } }
    }}
    let mut pb = PasetoBuilder::<V3, Public>::default(); pb.set_no_expiration_danger_acknowledged();
    if let Ok(t) = pb.build(priv_) { match GenericParser::<V3, Public>::default().parse(lk(&t), pub_) { Ok(j) => { if !j["exp"].is_null() { return wit(format!("C13 PasetoBuilder<V3,Public> with acknowledged no-expiration still carries exp: {j}")); } } Err(e) => return wit(format!("{pid} PasetoBuilder<V3,Public> token does not parse: {e}")) } }
    { use std::collections::HashMap; let mut vm: ValidatorMap = HashMap::new(); vm.insert("foo".to_string(), Box::new(|_k: &str, _v: &serde_json::Value| Err(PasetoClaimError::CustomValidation("foo".into()))));
      let mut b = GenericBuilder::<V3, Public>::default(); b.set_claim(CustomClaim::try_from(("foo", "bar")).unwrap()); if let Ok(t) = b.try_sign(priv_) { let mut p = GenericParser::<V3, Public>::default(); p.extend_validation_claims(vm); if p.parse(lk(&t), pub_).is_ok() { return wit("C16 GenericParser<V3,Public>: rejecting validator registered with extend_validation_claims is not honoured".into()); }
        let mut p2 = GenericParser::<V3, Public>::default(); p2.check_claim(AudienceClaim::from("zz")); if p2.parse(lk(&t), pub_).is_ok() { return wit("C15 GenericParser<V3,Public> expecting aud=zz accepts a token without aud".into()); } } }
}


// ---------------------------------------------------------------------------------------------
// every layer x every version/purpose of the main feature set: the same scenarios, selected by property
// ---------------------------------------------------------------------------------------------
#[cfg(feature = "main_set")]
fn layer_matrix(pid: &str) {
    use serde_json::json;
    std::panic::set_hook(Box::new(|_| {}));
    let is = |ps: &[&str]| ps.contains(&pid);
    macro_rules! one { ($V:ty, $P:ty, $name:expr, $bkey:expr, $pkey:expr, $wrongkey:expr, $build:ident, $ia:tt) => {{
        let bkey = $bkey; let pkey = $pkey; let wrongkey = $wrongkey;
        for fo in [None, Some("ft")] { let ia: Option<&str> = if $ia { Some("ia") } else { None };
            // generic layer
            let mut gb = GenericBuilder::<$V, $P>::default(); gb.set_claim(AudienceClaim::from("customers")).set_claim(CustomClaim::try_from(("n", 5)).unwrap()).set_claim(CustomClaim::try_from(("u", "Zo\u{eb} \u{1F600} \u{20BB7}")).unwrap());
            if let Some(f) = fo { gb.set_footer(Footer::from(f)); }
            mx_ia!($ia, gb, ia);
            let mut toks = vec![];
            for round in 0..2 { match gb.$build(bkey) { Ok(t) => toks.push(t), Err(e) => { if is(&["C01", "C02"]) { return wit(format!("{pid} GenericBuilder<{}>::{} #{round} failed: {e}", $name, stringify!($build))); } } } }
            for (round, t) in toks.iter().enumerate() { let t = lk(t);
                let mut gp = GenericParser::<$V, $P>::default(); if let Some(f) = fo { gp.set_footer(Footer::from(f)); } mx_ia!($ia, gp, ia);
                let r = gp.parse(t, pkey);
                if is(&["C01", "C02", "C05", "C06", "C08", "C14"]) { match &r { Ok(j) if *j == json!({"aud": "customers", "n": 5, "u": "Zo\u{eb} \u{1F600} \u{20BB7}"}) => {}, o => return wit(format!("{pid} GenericBuilder/GenericParser<{}> footer {fo:?} assertion {ia:?} build #{round}: claims aud=customers,n=5,u=Zo\u{eb} were set, the parser was given the same footer and assertion, but parse gives {:?}", $name, o.as_ref().map_err(|e| e.to_string()))) } }
                if is(&["C05", "C08"]) { let seg: Vec<&str> = t.split('.').collect(); let want = if fo.unwrap_or("").is_empty() { 3 } else { 4 }; if seg.len() != want || (want == 4 && seg[3] != R::b64(fo.unwrap_or("").as_bytes())) { return wit(format!("{pid} GenericBuilder<{}>: the footer segment of the token built with footer {fo:?} is not base64url(footer): {t}", $name)); } }
                if r.is_err() { continue; }
                if is(&["C04"]) { let mut gp = GenericParser::<$V, $P>::default(); if let Some(f) = fo { gp.set_footer(Footer::from(f)); } mx_ia!($ia, gp, ia); if gp.parse(t, wrongkey).is_ok() { return wit(format!("C04 GenericParser<{}> accepts a token under a key it was not produced with", $name)); } }
                if is(&["C05"]) { for f2 in [None, Some("ft"), Some("other"), Some("")] { let same = fo.unwrap_or("") == f2.unwrap_or(""); let mut gp = GenericParser::<$V, $P>::default(); if let Some(f) = f2 { gp.set_footer(Footer::from(f)); } mx_ia!($ia, gp, ia);
                    if gp.parse(t, pkey).is_ok() != same { return wit(format!("C05 GenericParser<{}>: token built with footer {fo:?}, expected footer {f2:?} -> accepted = {} but must be {same}", $name, !same)); } } }
                if is(&["C06"]) && $ia { for i2 in [None, Some("ia"), Some("other"), Some("")] { let same = ia.unwrap_or("") == i2.unwrap_or(""); let mut gp = GenericParser::<$V, $P>::default(); if let Some(f) = fo { gp.set_footer(Footer::from(f)); } mx_ia!($ia, gp, i2);
                    if gp.parse(t, pkey).is_ok() != same { return wit(format!("C06 GenericParser<{}>: token built with assertion {ia:?}, presented with {i2:?} -> accepted = {} but must be {same}", $name, !same)); } } }
                if is(&["C03"]) { let parts: Vec<&str> = t.split('.').collect(); if let Some(d) = R::unb64(parts[2]) { let n = d.len(); for pos in [0usize, n / 2, n - 1] { let mut e = d.clone(); e[pos] ^= 0x01; let mut t2 = format!("{}.{}.{}", parts[0], parts[1], R::b64(&e)); if parts.len() == 4 { t2.push('.'); t2.push_str(parts[3]); }
                    let mut gp = GenericParser::<$V, $P>::default(); if let Some(f) = fo { gp.set_footer(Footer::from(f)); } mx_ia!($ia, gp, ia);
                    match catch_unwind(AssertUnwindSafe(|| gp.parse(lk(&t2), pkey))) { Ok(Ok(j)) => return wit(format!("C03 GenericParser<{}> accepts an altered token (bit 0 of decoded byte {pos}/{n} flipped) -> {j}", $name)), Ok(Err(e)) => { if !matches!(e, GenericParserError::CipherError { .. }) { return wit(format!("C03 GenericParser<{}> reports an altered token (byte {pos}/{n}) as {e:?} instead of a cipher error: content was looked at before authentication", $name)); } } Err(_) => return wit(format!("C03 GenericParser<{}> panics on an altered token (byte {pos}/{n})", $name)) } } } }
                if is(&["C16"]) { use std::sync::atomic::{AtomicUsize, Ordering}; static SEEN: AtomicUsize = AtomicUsize::new(0);
                    fn count(_k: &str, _v: &serde_json::Value) -> Result<(), PasetoClaimError> { SEEN.fetch_add(1, Ordering::SeqCst); Ok(()) }
                    let parts: Vec<&str> = t.split('.').collect(); if let Some(d) = R::unb64(parts[2]) { let n = d.len(); for pos in [n / 2, n - 1] { let mut e = d.clone(); e[pos] ^= 0x20; let mut t2 = format!("{}.{}.{}", parts[0], parts[1], R::b64(&e)); if parts.len() == 4 { t2.push('.'); t2.push_str(parts[3]); }
                        let mut gp = GenericParser::<$V, $P>::default(); if let Some(f) = fo { gp.set_footer(Footer::from(f)); } mx_ia!($ia, gp, ia); gp.validate_claim(AudienceClaim::from("customers"), &count);
                        SEEN.store(0, Ordering::SeqCst); let r = gp.parse(lk(&t2), pkey);
                        if SEEN.load(Ordering::SeqCst) != 0 || r.is_ok() { return wit(format!("C16 GenericParser<{}>: on a token with decoded byte {pos}/{n} altered the validator ran {} time(s) and parse accepted = {} (a validator must only ever see authenticated values)", $name, SEEN.load(Ordering::SeqCst), r.is_ok())); } } } }
                if is(&["C15"]) { let mut gp = GenericParser::<$V, $P>::default(); if let Some(f) = fo { gp.set_footer(Footer::from(f)); } mx_ia!($ia, gp, ia); gp.check_claim(AudienceClaim::from("customers")).check_claim(CustomClaim::try_from(("n", 5)).unwrap()); if gp.parse(t, pkey).is_err() { return wit(format!("C15 GenericParser<{}> expecting aud=customers,n=5 rejects a token that carries them", $name)); }
                    for (d, bad) in [("aud=Customers", 0), ("n=6", 1), ("missing=1", 2)] { let mut gp = GenericParser::<$V, $P>::default(); if let Some(f) = fo { gp.set_footer(Footer::from(f)); } mx_ia!($ia, gp, ia); match bad { 0 => { gp.check_claim(AudienceClaim::from("Customers")); } 1 => { gp.check_claim(CustomClaim::try_from(("n", 6)).unwrap()); } _ => { gp.check_claim(CustomClaim::try_from(("missing", 1)).unwrap()); } }
                        if gp.parse(t, pkey).is_ok() { return wit(format!("C15 GenericParser<{}> expecting {d} accepts a token with aud=customers,n=5", $name)); } } }
                if is(&["C16"]) { fn rej(_k: &str, _v: &serde_json::Value) -> Result<(), PasetoClaimError> { Err(PasetoClaimError::CustomValidation("no".into())) }
                    for which in 0..2 { let mut gp = GenericParser::<$V, $P>::default(); if let Some(f) = fo { gp.set_footer(Footer::from(f)); } mx_ia!($ia, gp, ia); if which == 0 { gp.validate_claim(AudienceClaim::from("customers"), &rej); } else { gp.validate_claim(CustomClaim::try_from("absent").unwrap(), &rej); }
                        if gp.parse(t, pkey).is_ok() { return wit(format!("C16 GenericParser<{}>: a rejecting validator for {} is not honoured", $name, if which == 0 { "aud" } else { "an absent claim" })); } } }
            }
            // batteries-included layer
            let mut pb = PasetoBuilder::<$V, $P>::default(); pb.set_claim(SubjectClaim::from("s1")); if let Some(f) = fo { pb.set_footer(Footer::from(f)); } mx_ia!($ia, pb, ia);
            for round in 0..2 { match pb.build(bkey) { Ok(t) => { let t = lk(&t);
                let mut pp = PasetoParser::<$V, $P>::default(); if let Some(f) = fo { pp.set_footer(Footer::from(f)); } mx_ia!($ia, pp, ia);
                let r = pp.parse(t, pkey);
                if is(&["C01", "C02", "C05", "C06", "C08", "C13", "C14"]) { match &r { Ok(j) if j["sub"] == "s1" && j["exp"].is_string() && j["iat"].is_string() && j["nbf"].is_string() && j.as_object().map(|o| o.len()) == Some(4) => {}, o => return wit(format!("{pid} PasetoBuilder/PasetoParser<{}> footer {fo:?} build #{round}: expected exactly sub=s1 plus default exp/iat/nbf, parse gives {:?}", $name, o.as_ref().map_err(|e| e.to_string()))) } }
                if r.is_err() { continue; }
                if is(&["C04"]) { let mut pp = PasetoParser::<$V, $P>::default(); if let Some(f) = fo { pp.set_footer(Footer::from(f)); } mx_ia!($ia, pp, ia); if pp.parse(t, wrongkey).is_ok() { return wit(format!("C04 PasetoParser<{}> accepts a token under a key it was not produced with", $name)); } }
                if is(&["C05"]) { for f2 in [None, Some("ft"), Some("other")] { let same = fo.unwrap_or("") == f2.unwrap_or(""); let mut pp = PasetoParser::<$V, $P>::default(); if let Some(f) = f2 { pp.set_footer(Footer::from(f)); } mx_ia!($ia, pp, ia); if pp.parse(t, pkey).is_ok() != same { return wit(format!("C05 PasetoParser<{}>: token built with footer {fo:?}, expected footer {f2:?} -> accepted = {} but must be {same}", $name, !same)); } } }
                if is(&["C06"]) && $ia { for i2 in [None, Some("other")] { let mut pp = PasetoParser::<$V, $P>::default(); if let Some(f) = fo { pp.set_footer(Footer::from(f)); } mx_ia!($ia, pp, i2); if pp.parse(t, pkey).is_ok() { return wit(format!("C06 PasetoParser<{}>: token built with assertion {ia:?} accepted with {i2:?}", $name)); } } }
                if is(&["C11", "C12"]) { /* default validators per version: an expired / not yet valid token built through the generic builder */
                    for (claim, val) in [("exp", "2000-01-01T00:00:00Z"), ("nbf", "2999-01-01T00:00:00Z"), ("exp", "garbage"), ("nbf", "garbage")] { if (pid == "C11") != (claim == "exp") { continue; }
                        let mut gb2 = GenericBuilder::<$V, $P>::default(); gb2.set_claim(CustomClaim::try_from(("x", 1)).unwrap());
                        if claim == "exp" { match ExpirationClaim::try_from(val) { Ok(c) => { gb2.set_claim(c); } Err(_) => continue } } else { match NotBeforeClaim::try_from(val) { Ok(c) => { gb2.set_claim(c); } Err(_) => continue } }
                        if let Ok(t2) = gb2.$build(bkey) { if PasetoParser::<$V, $P>::default().parse(lk(&t2), pkey).is_ok() { return wit(format!("{pid} default PasetoParser<{}> accepts a token whose {claim} is {val}", $name)); } } } }
            } Err(e) => { if is(&["C01", "C02", "C13"]) { return wit(format!("{pid} PasetoBuilder<{}>::build #{round} failed: {e}", $name)); } } } }
        }
        if is(&["C13", "C17"]) {
            // acknowledgement and duplicate handling on every version's build()
            let mut b1 = PasetoBuilder::<$V, $P>::default(); b1.set_no_expiration_danger_acknowledged(); b1.set_claim(SubjectClaim::from("s"));
            for round in 0..2 { if let Ok(t) = b1.build(bkey) { if let Ok(j) = GenericParser::<$V, $P>::default().parse(lk(&t), pkey) { if !j["exp"].is_null() && pid == "C13" { return wit(format!("C13 PasetoBuilder<{}> with acknowledged no-expiration, build #{round}: the token carries exp: {j}", $name)); } } } else if pid == "C17" { return wit(format!("C17 PasetoBuilder<{}> without a repeated key: build #{round} failed", $name)); } }
            let mut b2 = PasetoBuilder::<$V, $P>::default(); b2.set_claim(SubjectClaim::from("s"));
            for round in 0..2 { match b2.build(bkey) { Ok(t) => { if let Ok(j) = GenericParser::<$V, $P>::default().parse(lk(&t), pkey) { if pid == "C13" { let pt = |v: &serde_json::Value| time::OffsetDateTime::parse(v.as_str().unwrap_or(""), &time::format_description::well_known::Rfc3339);
                    match (pt(&j["exp"]), pt(&j["iat"]), pt(&j["nbf"])) { (Ok(e), Ok(i), Ok(n)) if e - i == time::Duration::hours(1) && n == i => {}, _ => return wit(format!("C13 PasetoBuilder<{}> build #{round}: default exp/iat/nbf are not (iat+1h, creation time, creation time): {j}", $name)) } } } }
                Err(e) => { if pid == "C17" { return wit(format!("C17 PasetoBuilder<{}> without a repeated key: build #{round} failed: {e}", $name)); } } } }
            let mut b3 = PasetoBuilder::<$V, $P>::default(); b3.set_claim(SubjectClaim::from("a")); b3.set_claim(IssuerClaim::from("i")); b3.set_claim(SubjectClaim::from("b"));
            for round in 0..2 { if b3.build(bkey).is_ok() && pid == "C17" { return wit(format!("C17 PasetoBuilder<{}>: sub supplied twice but build #{round} returned a token", $name)); } }
        }
        if is(&["C09"]) { for s in ["", ".", "..", "...", "a.b.c", "a.b.c.d", "v4.local.", "v1.public.AAAA", "v2.local.AAAA.AAAA", "v3.local.\u{20ac}", "\u{20ac}.\u{20ac}.\u{20ac}"] { let hdr = format!("{}.", $name.to_lowercase().replace(",", "."));
            for t in [s.to_string(), format!("{hdr}{}", R::b64(&[0u8; 7])), format!("{hdr}{}", R::b64(&[0u8; 70])), format!("{hdr}{}.\u{e9}", R::b64(&[0u8; 120])), format!("{hdr}{}.Zm9v", R::b64(&[255u8; 300]))] {
                if catch_unwind(AssertUnwindSafe(|| { let _ = GenericParser::<$V, $P>::default().parse(lk(&t), pkey); let _ = PasetoParser::<$V, $P>::default().parse(lk(&t), pkey); let mut g = GenericParser::<$V, $P>::default(); g.set_footer(Footer::from("foo")); let _ = g.parse(lk(&t), pkey); })).is_err() { return wit(format!("C09 GenericParser/PasetoParser<{}>::parse panics on token {t:?}", $name)); } } } }
    }} }
    macro_rules! mx_ia { (true, $obj:ident, $ia:expr) => { if let Some(i) = $ia { $obj.set_implicit_assertion(ImplicitAssertion::from(i)); } }; (false, $obj:ident, $ia:expr) => { let _ = &$ia; }; }
    if is(&["C07"]) {
        // an authentic local token of version X presented verbatim (and relabelled) to the PARSERS of every other version, same 32 key bytes
        let mut toks: Vec<(u8, String)> = vec![];
        { let mut b = GenericBuilder::<V1, Local>::default(); b.set_claim(AudienceClaim::from("a")); if let Ok(t) = b.try_encrypt(lkv(PasetoSymmetricKey::<V1, Local>::from(key32(1)))) { toks.push((1, t)); } }
        { let mut b = GenericBuilder::<V2, Local>::default(); b.set_claim(AudienceClaim::from("a")); if let Ok(t) = b.try_encrypt(lkv(PasetoSymmetricKey::<V2, Local>::from(key32(1)))) { toks.push((2, t)); } }
        { let mut b = GenericBuilder::<V3, Local>::default(); b.set_claim(AudienceClaim::from("a")); if let Ok(t) = b.try_encrypt(lkv(PasetoSymmetricKey::<V3, Local>::from(key32(1)))) { toks.push((3, t)); } }
        { let mut b = GenericBuilder::<V4, Local>::default(); b.set_claim(AudienceClaim::from("a")); if let Ok(t) = b.try_encrypt(lkv(PasetoSymmetricKey::<V4, Local>::from(key32(1)))) { toks.push((4, t)); } }
        for (x, t) in &toks { for y in 1..=4u8 { if *x == y { continue; } for (how, tt) in [("verbatim", t.clone()), ("header rewritten", t.replacen(&format!("v{x}.local."), &format!("v{y}.local."), 1))] { let tt = lk(&tt);
            let (g, p) = match y { 1 => { let k = lkv(PasetoSymmetricKey::<V1, Local>::from(key32(1))); (GenericParser::<V1, Local>::default().parse(tt, k).is_ok(), PasetoParser::<V1, Local>::default().parse(tt, k).is_ok()) }
                                   2 => { let k = lkv(PasetoSymmetricKey::<V2, Local>::from(key32(1))); (GenericParser::<V2, Local>::default().parse(tt, k).is_ok(), PasetoParser::<V2, Local>::default().parse(tt, k).is_ok()) }
                                   3 => { let k = lkv(PasetoSymmetricKey::<V3, Local>::from(key32(1))); (GenericParser::<V3, Local>::default().parse(tt, k).is_ok(), PasetoParser::<V3, Local>::default().parse(tt, k).is_ok()) }
                                   _ => { let k = lkv(PasetoSymmetricKey::<V4, Local>::from(key32(1))); (GenericParser::<V4, Local>::default().parse(tt, k).is_ok(), PasetoParser::<V4, Local>::default().parse(tt, k).is_ok()) } };
            if g || p { return wit(format!("C07 authentic v{x}.local token presented {how} to the v{y}.local parsers with the same key bytes: GenericParser accepts = {g}, PasetoParser accepts = {p}")); } } } }
        // v2.public <-> v4.public at the parser layers, same Ed25519 key bytes, verbatim and relabelled; and public tokens to the local parsers
        { let (kp, pk) = R::ed_keypair(9); let k64 = lkv(Key::<64>::from(kp)); let k32 = lkv(Key::<32>::from(pk));
          let mut b2 = GenericBuilder::<V2, Public>::default(); b2.set_claim(AudienceClaim::from("a")); let mut b4 = GenericBuilder::<V4, Public>::default(); b4.set_claim(AudienceClaim::from("a"));
          let mut pb2 = PasetoBuilder::<V2, Public>::default(); let mut pb4 = PasetoBuilder::<V4, Public>::default();
          let t2s: Vec<String> = [b2.try_sign(&PasetoAsymmetricPrivateKey::<V2, Public>::from(k64)).ok(), pb2.build(&PasetoAsymmetricPrivateKey::<V2, Public>::from(k64)).ok()].into_iter().flatten().collect();
          let t4s: Vec<String> = [b4.try_sign(&PasetoAsymmetricPrivateKey::<V4, Public>::from(k64)).ok(), pb4.build(&PasetoAsymmetricPrivateKey::<V4, Public>::from(k64)).ok()].into_iter().flatten().collect();
          let pk2 = lkv(PasetoAsymmetricPublicKey::<V2, Public>::from(k32)); let pk4 = lkv(PasetoAsymmetricPublicKey::<V4, Public>::from(k32));
          for t in &t2s { for (how, tt) in [("verbatim", t.clone()), ("header rewritten", t.replacen("v2.public.", "v4.public.", 1))] { let tt = lk(&tt);
              let (g, p) = (GenericParser::<V4, Public>::default().parse(tt, pk4).is_ok(), PasetoParser::<V4, Public>::default().parse(tt, pk4).is_ok());
              if g || p { return wit(format!("C07 authentic v2.public token presented {how} to the v4.public parsers with the same Ed25519 key bytes: GenericParser accepts = {g}, PasetoParser accepts = {p}")); }
              for ltok in [tt.to_string(), t.replacen("v2.public.", "v4.local.", 1)] { let ltok = lk(&ltok); let k = lkv(PasetoSymmetricKey::<V4, Local>::from(Key::<32>::from(pk)));
                  if GenericParser::<V4, Local>::default().parse(ltok, k).is_ok() || PasetoParser::<V4, Local>::default().parse(ltok, k).is_ok() { return wit(format!("C07 v2.public token accepted by a v4.local parser keyed with the public key bytes: {ltok}")); } } } }
          // one parser instance: an authentic token of its own protocol first, then the foreign ones (a remembered result must not leak)
          if let (Some(own), Some(foreign)) = (t4s.first(), t2s.first()) { let own = lk(own);
              for (how, tt) in [("verbatim", foreign.clone()), ("header rewritten", foreign.replacen("v2.public.", "v4.public.", 1)), ("own token with the last character changed", { let mut x = own.to_string(); let c = x.pop().unwrap_or('A'); x.push(if c == 'A' { 'B' } else { 'A' }); x })] { let tt = lk(&tt);
                  let mut g = GenericParser::<V4, Public>::default(); let a = g.parse(own, pk4).is_ok(); let b = g.parse(tt, pk4).is_ok();
                  let mut p = PasetoParser::<V4, Public>::default(); let c = p.parse(own, pk4).is_ok(); let d = p.parse(tt, pk4).is_ok();
                  if !a || !c || b || d { return wit(format!("C07 one v4.public parser: its own authentic token is accepted (generic {a}, batteries-included {c}); a v2.public token / altered token presented {how} to the SAME parser afterwards: generic accepts = {b}, batteries-included accepts = {d}")); } } }
          for t in &t4s { for (how, tt) in [("verbatim", t.clone()), ("header rewritten", t.replacen("v4.public.", "v2.public.", 1))] { let tt = lk(&tt);
              let (g, p) = (GenericParser::<V2, Public>::default().parse(tt, pk2).is_ok(), PasetoParser::<V2, Public>::default().parse(tt, pk2).is_ok());
              if g || p { return wit(format!("C07 authentic v4.public token presented {how} to the v2.public parsers with the same Ed25519 key bytes: GenericParser accepts = {g}, PasetoParser accepts = {p}")); } } } }
    }
    let (kp, pk) = R::ed_keypair(9); let (_k2, pk2) = R::ed_keypair(10); let k64 = lkv(Key::<64>::from(kp)); let k32 = lkv(Key::<32>::from(pk)); let k32b = lkv(Key::<32>::from(pk2));
    one!(V1, Local, "V1,Local", lkv(PasetoSymmetricKey::<V1, Local>::from(key32(1))), lkv(PasetoSymmetricKey::<V1, Local>::from(key32(1))), lkv(PasetoSymmetricKey::<V1, Local>::from(key32(2))), try_encrypt, false);
    one!(V2, Local, "V2,Local", lkv(PasetoSymmetricKey::<V2, Local>::from(key32(1))), lkv(PasetoSymmetricKey::<V2, Local>::from(key32(1))), lkv(PasetoSymmetricKey::<V2, Local>::from(key32(2))), try_encrypt, false);
    one!(V3, Local, "V3,Local", lkv(PasetoSymmetricKey::<V3, Local>::from(key32(1))), lkv(PasetoSymmetricKey::<V3, Local>::from(key32(1))), lkv(PasetoSymmetricKey::<V3, Local>::from(key32(2))), try_encrypt, true);
    one!(V4, Local, "V4,Local", lkv(PasetoSymmetricKey::<V4, Local>::from(key32(1))), lkv(PasetoSymmetricKey::<V4, Local>::from(key32(1))), lkv(PasetoSymmetricKey::<V4, Local>::from(key32(2))), try_encrypt, true);
    one!(V2, Public, "V2,Public", lkv(PasetoAsymmetricPrivateKey::<V2, Public>::from(k64)), lkv(PasetoAsymmetricPublicKey::<V2, Public>::from(k32)), lkv(PasetoAsymmetricPublicKey::<V2, Public>::from(k32b)), try_sign, false);
    one!(V4, Public, "V4,Public", lkv(PasetoAsymmetricPrivateKey::<V4, Public>::from(k64)), lkv(PasetoAsymmetricPublicKey::<V4, Public>::from(k32)), lkv(PasetoAsymmetricPublicKey::<V4, Public>::from(k32b)), try_sign, true);
    { let pool = rsakeys::pool(); let sk = lkv(pool[0].0.clone()); let pkd = lkv(pool[0].1.clone()); let pko = lkv(pool[1].1.clone());
      one!(V1, Public, "V1,Public", lkv(PasetoAsymmetricPrivateKey::<V1, Public>::from(&sk[..])), lkv(PasetoAsymmetricPublicKey::<V1, Public>::from(&pkd[..])), lkv(PasetoAsymmetricPublicKey::<V1, Public>::from(&pko[..])), try_sign, false); }
}

fn main() {
    let pid = std::env::args().nth(1).unwrap_or_default();
    #[cfg(feature = "main_set")]
    match pid.as_str() {
        "C01" => c01(), "C02" => c02(), "C03" => c03(), "C04" => c04(), "C05" => c05(), "C06" => c06(), "C07" => c07(), "C08" => c08(), "C09" => c09(), "C10" => c10(),
        "C11" => c11_c12("C11"), "C12" => c11_c12("C12"), "C13" => c13(), "C14" => c14(), "C15" => { c15(); parser_history("C15") }, "C16" => { c16(); parser_history("C16") }, "C17" => { c17(); c17_time_claims() }, "C18" => c18(),
        _ => {}
    }
    #[cfg(feature = "main_set")]
    { key_constructors(&pid); layer_matrix(&pid); }
    #[cfg(feature = "v3pub_set")]
    v3pub(&pid);
}
