#!/bin/bash
# usage: run.sh <PROPERTY> <repo-dir>   -- bounded concrete witness search against the real crate (DESIGN 1.5). Prints `WITNESS <text>` lines.
# The harness crate is named after the hash of <repo-dir>, so concurrent runs against different copies never execute each other's binary;
# artifacts built for a scratch copy (anything but /repo) are deleted again after the run.
set -u
PID=$1; REPO=$(readlink -f $2)
HERE=$(dirname $(readlink -f $0)); VERIF=$(dirname $HERE)
H=$(echo "$REPO" | md5sum | cut -c1-10)
D=$VERIF/build/replay/$H; mkdir -p $D/src
sed "s#@REPO@#$REPO#; s#^name = \"rp_replay\"#name = \"rp_replay_$H\"#" $HERE/Cargo.toml.tmpl > $D/Cargo.toml
cp $HERE/src/*.rs $D/src/; cp /repo/Cargo.lock $D/Cargo.lock 2>/dev/null
export CARGO_TARGET_DIR=$VERIF/build/replay_target CARGO_NET_OFFLINE=true CARGO_INCREMENTAL=0
# prune what earlier (possibly interrupted) runs against scratch copies left behind: harness binaries and per-path builds of the crate
# that have not been touched for two hours (dependencies stay: they are shared by every run)
find $CARGO_TARGET_DIR/debug -maxdepth 2 \( -name 'rp_replay_*' -o -name '*rusty_paseto-*' \) -mmin +120 ! -name "rp_replay_$(echo /repo | md5sum | cut -c1-10)*" -delete 2>/dev/null
rc=0
run_set() { # $1 = log name, rest = cargo feature args
  local log=$1; shift
  ( cd $D && cargo build --offline -q --message-format=json "$@" 2>$D/err_$log.log >$D/build_$log.json ) || return 1
  local exe
  exe=$(python3 - $D/build_$log.json rp_replay_$H <<'PY'
import json,sys
exe=""
for l in open(sys.argv[1]):
    try: m=json.loads(l)
    except Exception: continue
    if m.get("reason")=="compiler-artifact" and m.get("target",{}).get("name")==sys.argv[2] and m.get("executable"): exe=m["executable"]
print(exe)
PY
)
  [ -n "$exe" ] && [ -x "$exe" ] || return 1
  # run a private copy: a later build of the other feature set replaces the file in the target directory
  cp "$exe" $D/finder_$log && $D/finder_$log $PID "$REPO" 2>>$D/err_$log.log
}
run_set main || rc=$?
case $PID in C02|C03|C04|C05|C06|C07|C08|C09|C11|C12|C13|C14|C15|C16)
  run_set v3 --no-default-features --features v3pub_set || rc=$? ;;
esac
if [ $rc -ne 0 ]; then echo "REPLAY-BUILD-OR-RUN-FAILED rc=$rc"; grep -E "^error" -A6 $D/err_main.log $D/err_v3.log 2>/dev/null | head -30
  python3 - $D <<'PY'
import json,sys,glob,os
n=0
for f in glob.glob(os.path.join(sys.argv[1],"build_*.json")):
    for l in open(f):
        try: m=json.loads(l)
        except Exception: continue
        if m.get("reason")=="compiler-message" and m["message"]["level"]=="error" and n<5: print(m["message"]["rendered"][:600]); n+=1
PY
fi
if [ "$REPO" != "/repo" ]; then
  # scratch copy: remove what was built for it (harness + the path dependency at that path)
  python3 - $D rp_replay_$H "$REPO" <<'PY'
import json,sys,os,glob
d,name,repo=sys.argv[1:4]
for f in glob.glob(os.path.join(d,"build_*.json")):
    for l in open(f):
        try: m=json.loads(l)
        except Exception: continue
        if m.get("reason")!="compiler-artifact": continue
        if m.get("target",{}).get("name")==name or m.get("manifest_path","").startswith(repo+"/"):
            for fn in m.get("filenames",[])+([m["executable"]] if m.get("executable") else []):
                try: os.remove(fn)
                except OSError: pass
PY
fi
exit 0
