#!/bin/bash
# usage: run.sh <PROPERTY> <repo-dir>   -- bounded concrete witness search against the real crate (DESIGN 1.5). Prints `WITNESS <text>` lines.
set -u
PID=$1; REPO=$(readlink -f $2)
HERE=$(dirname $(readlink -f $0)); VERIF=$(dirname $HERE)
H=$(echo "$REPO" | md5sum | cut -c1-10)
D=$VERIF/build/replay/$H; mkdir -p $D/src
sed "s#@REPO@#$REPO#" $HERE/Cargo.toml.tmpl > $D/Cargo.toml
cp $HERE/src/*.rs $D/src/; cp /repo/Cargo.lock $D/Cargo.lock 2>/dev/null
export CARGO_TARGET_DIR=$VERIF/build/replay_target CARGO_NET_OFFLINE=true CARGO_INCREMENTAL=0
rc=0
( cd $D && cargo run --offline -q -- $PID "$REPO" 2>$D/err_main.log ) || rc=$?
case $PID in C02|C03|C04|C05|C06|C07|C08|C09|C11|C12|C13|C14|C15|C16)
  ( cd $D && cargo run --offline -q --no-default-features --features v3pub_set -- $PID "$REPO" 2>$D/err_v3.log ) || rc=$? ;;
esac
if [ $rc -ne 0 ]; then echo "REPLAY-BUILD-OR-RUN-FAILED rc=$rc"; grep -E "^error" -A6 $D/err_main.log $D/err_v3.log 2>/dev/null | head -30; fi
exit 0
