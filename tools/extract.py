#!/usr/bin/env python3
"""Mechanical extraction of /repo/src into a single Verus input file, with contracts woven in.

See DESIGN.md §1.1 (what is dropped / rewritten) and §1.2 (weaving).  Every rewrite is logged.
Exit status of the CLI: 0 ok, 2 extraction problem (lost anchor, unsupported construct).
"""
import os, re, sys, json, hashlib
sys.path.insert(0, os.path.dirname(os.path.abspath(__file__)))
import rustlex as R

VERIF = os.path.dirname(os.path.dirname(os.path.abspath(__file__)))
REPO_SRC = os.environ.get("VERIF_REPO_SRC", "/repo/src")

class ExtractError(Exception):
    pass

# --------------------------------------------------------------------------------------------
# vspec parsing
# --------------------------------------------------------------------------------------------
class FnSpec:
    def __init__(self, file, impl, name, line, src):
        self.file = file; self.impl = impl; self.name = name; self.line = line; self.src = src
        self.requires = []   # (label, text)
        self.ensures = []
        self.entry = []      # text
        self.tail = []
        self.after = []      # (regex, text)
        self.before = []     # (regex, text)
        self.closures = {}   # ordinal -> verdict spec body for a lifted validator closure
        self.loops = {}      # ordinal -> text
        self.loopbody = {}   # ordinal -> ghost text at start of loop body
        self.loopend = {}    # ordinal -> ghost text at end of loop body
        self.attrs = []
        self.safety = []     # property ids served by body-safety obligations
        self.ret = "r"
        self.used = False
        self.external_body = False
        self.opts = {}

def rename_spec(spec, mapping):
    """R-paramrename: the same contract with parameter names replaced (the function's parameters were renamed, types unchanged)"""
    import copy
    def sub(t):
        for a, b in mapping.items():
            t = re.sub(r"(?<![\w.])%s\b(?!\s*:)" % re.escape(a), "\x00" + b + "\x00", t)
            t = re.sub(r"\b__I_%s\b" % re.escape(a), "\x00__I_" + b + "\x00", t)     # R-implarg names the generic after the parameter
        return t.replace("\x00", "")
    c = copy.copy(spec)
    c.requires = [(l, sub(t)) for l, t in spec.requires]; c.ensures = [(l, sub(t)) for l, t in spec.ensures]
    c.entry = [sub(t) for t in spec.entry]; c.tail = [sub(t) for t in spec.tail]
    c.after = [(rx, sub(t)) for rx, t in spec.after]; c.before = [(rx, sub(t)) for rx, t in spec.before]
    c.loops = {k: sub(t) for k, t in spec.loops.items()}; c.loopbody = {k: sub(t) for k, t in spec.loopbody.items()}; c.loopend = {k: sub(t) for k, t in spec.loopend.items()}
    return c

def param_names(params_text):
    out = []
    for prm in split_top(params_text):
        prm = prm.strip()
        if not prm or re.match(r"^&?\s*('\w+\s+)?(mut\s+)?self$", prm): continue
        m = re.match(r"^(?:mut\s+)?(\w+)\s*:\s*(.+)$", prm, re.S)
        if not m: return None
        out.append((m.group(1), R.norm(m.group(2))))
    return out

class Specs:
    def __init__(self):
        self.fns = {}        # (file, impl_norm, name) -> FnSpec
        self.items = {}      # file -> [text]
        self.prelude = []    # text placed at crate root
        self.axioms = []     # text placed in crate::rp_axioms
        self.axioms_json = []  # axioms about `json()` of claim types: separate group, not broadcast inside generic/claims (cycle)
        self.specdefs = []   # text placed in crate::rp_spec (spec fns / lemmas about repo types; no module-level broadcast use)
        self.companions = {} # (file, impl_norm) -> text replacing the generated *SpecImpl companion
        self.implitems = {}  # (file, impl_norm) -> spec items placed inside that impl block
        self.dropfns = set()

def parse_vspec(path, specs):
    cur_file = None; cur = None; mode = None; buf = []; arg = None
    def flush():
        nonlocal buf, mode, arg
        t = "\n".join(buf).rstrip()
        if mode == "items" and t.strip():
            specs.items.setdefault(cur_file, []).append(t)
        elif mode == "prelude" and t.strip():
            specs.prelude.append(t)
        elif mode == "axioms" and t.strip():
            (specs.axioms_json if arg == "json" else specs.axioms).append(t)
        elif mode == "specs" and t.strip():
            specs.specdefs.append(t)
        elif mode == "companion":
            specs.companions[(cur_file, R.norm(arg))] = t
        elif mode == "implitems":
            specs.implitems[(cur_file, R.norm(arg))] = t
        elif mode == "requires": cur.requires.append((arg, t))
        elif mode == "ensures": cur.ensures.append((arg, t))
        elif mode == "entry": cur.entry.append(t)
        elif mode == "tail": cur.tail.append(t)
        elif mode == "after": cur.after.append((arg, t))
        elif mode == "before": cur.before.append((arg, t))
        elif mode == "loop": cur.loops[int(arg)] = t
        elif mode == "loopbody": cur.loopbody[int(arg)] = t
        elif mode == "closure": cur.closures[int(arg)] = t
        elif mode == "loopend": cur.loopend[int(arg)] = t
        elif mode == "attr": cur.attrs.append(t)
        buf = []; mode = None; arg = None
    for ln, line in enumerate(open(path).read().split("\n"), 1):
        if line.startswith("@"):
            flush()
            parts = line.split(None, 1)
            d = parts[0]; rest = parts[1].strip() if len(parts) > 1 else ""
            if d == "@file": cur_file = rest; cur = None
            elif d == "@items": mode = "items"
            elif d == "@prelude": mode = "prelude"
            elif d == "@axioms": mode = "axioms"; arg = rest
            elif d == "@specs": mode = "specs"
            elif d == "@companion": mode = "companion"; arg = rest
            elif d == "@implitems": mode = "implitems"; arg = rest
            elif d == "@fn":
                m = re.match(r"(.*?)\s*::\s*(\w+)\s*((?:\w+=\S+\s*)*)$", rest)
                if not m: raise ExtractError("%s:%d: bad @fn" % (path, ln))
                impl = m.group(1).strip()
                impl = "-" if impl == "-" else R.norm(impl)
                cur = FnSpec(cur_file, impl, m.group(2), ln, path)
                for kv in m.group(3).split():
                    k, v = kv.split("=", 1)
                    if k == "safety": cur.safety = v.split(",")
                    elif k == "ret": cur.ret = v
                    else: cur.opts[k] = v
                key = (cur_file, impl, m.group(2))
                if key in specs.fns: raise ExtractError("%s:%d: duplicate @fn %s" % (path, ln, key))
                specs.fns[key] = cur
            elif d in ("@requires", "@ensures", "@after", "@before", "@loop", "@loopbody", "@loopend", "@closure"):
                mode = d[1:]; arg = rest
            elif d in ("@entry", "@tail", "@attr"):
                mode = d[1:]
            elif d == "@external_body":
                cur.external_body = True
            elif d == "@end": pass
            else: raise ExtractError("%s:%d: unknown directive %s" % (path, ln, d))
        elif line.startswith("#") and not line.startswith("#[") and not line.startswith("#!["):
            continue
        else:
            buf.append(line)
    flush()

# --------------------------------------------------------------------------------------------
# output with line tracking
# --------------------------------------------------------------------------------------------
class Out:
    def __init__(self):
        self.chunks = []    # (text, meta)
    def add(self, text, meta=None):
        if text: self.chunks.append((text, meta))
    def render(self):
        lines_meta = []   # list of (start_line, end_line, meta)
        parts = []; line = 1
        for t, m in self.chunks:
            nl = t.count("\n")
            if m is not None:
                # the lines the chunk really occupies (trailing newlines belong to nobody: the next chunk starts there)
                lines_meta.append((line, line + t.rstrip("\n").count("\n"), m))
            parts.append(t); line += nl
        return "".join(parts), lines_meta

# --------------------------------------------------------------------------------------------
# rewrite helpers (operate on text of comment-free code)
# --------------------------------------------------------------------------------------------
class Ctx:
    def __init__(self, specs):
        self.specs = specs
        self.rewrites = []       # dicts
        self.dropped = {"comments": 0, "test_items": 0, "cfg_attrs": 0, "derive_attrs": 0, "allow_attrs": 0}
        self.fn_index = []       # dicts describing every fn emitted
        self.closure_n = 0
        self.stub_fns = set()
        self.drop_contract_fns = set()
        self.drop_uses = set()   # (file, normalised use text) dropped on retry (unresolved import in changed code)
        self.gen_axioms = []     # (file, enum, variant, source type, ctor suffix): `?` conversion facts for synthesised #[from] impls
        self.lifted = []
    def log(self, rule, file, line, before, after):
        self.rewrites.append({"rule": rule, "file": file, "line": line, "before": before[:200], "after": after[:200]})

def split_top(s, sep=","):
    """split s on sep at bracket depth 0 (angle brackets counted too)"""
    out = []; d = 0; cur = ""
    i = 0
    while i < len(s):
        c = s[i]
        if c in "([{": d += 1
        elif c in ")]}": d -= 1
        elif c == "<": d += 1
        elif c == ">" and i > 0 and s[i - 1] != "-" and s[i - 1] != "=": d -= 1
        if c == sep and d == 0:
            out.append(cur); cur = ""
        else:
            cur += c
        i += 1
    if cur.strip(): out.append(cur)
    return out

def find_matching(s, i):
    """s[i] is an opening bracket ([{ ; return index of the matching close (no strings with brackets expected, but handled)."""
    pairs = {"(": ")", "[": "]", "{": "}"}
    stack = []; j = i; n = len(s)
    while j < n:
        c = s[j]
        if c == '"':
            j += 1
            while s[j] != '"':
                if s[j] == "\\": j += 1
                j += 1
        elif c == "'" and j + 2 < n and (s[j + 2] == "'" or (s[j + 1] == "\\")):
            j = s.index("'", j + 2 if s[j + 1] != "\\" else j + 3)
        elif c in pairs: stack.append(pairs[c])
        elif c in ")]}":
            if stack[-1] != c: raise ExtractError("bracket mismatch")
            stack.pop()
            if not stack: return j
        j += 1
    raise ExtractError("unclosed bracket")

def rule_fmt(ctx, file, s):
    """R-fmt: format!("lit{}lit", a, b) -> explicit pushes; x.to_string() is left alone."""
    out = ""; i = 0
    while True:
        m = re.search(r"\bformat!\(", s[i:])
        if not m:
            out += s[i:]; break
        st = i + m.start(); op = i + m.end() - 1
        cl = find_matching(s, op)
        inner = s[op + 1:cl]
        args = [a.strip() for a in split_top(inner)]
        lit = args[0]
        if not (lit.startswith('"') and lit.endswith('"')):
            raise ExtractError("%s: unsupported format! shape: %s" % (file, inner))
        parts = re.split(r"(\{\})", lit[1:-1])
        if re.search(r"\{[^}]", lit[1:-1].replace("{}", "")):
            raise ExtractError("%s: unsupported format! placeholders: %s" % (file, lit))
        code = "{ let __s = String::new(); "; ai = 1
        for p in parts:
            if p == "{}":
                code += "let __s = str_push_display(__s, &(%s)); " % args[ai]; ai += 1
            elif p:
                code += 'let __s = str_push_lit(__s, "%s"); ' % p
        code += "__s }"
        ctx.log("R-fmt", file, s.count("\n", 0, st) + 1, s[st:cl + 1], code)
        out += s[i:st] + code; i = cl + 1
    return out

def rule_body_text(ctx, file, s):
    """Body-level syntactic rules (DESIGN §1.1)."""
    s = rule_fmt(ctx, file, s)
    def sub(rule, pat, rep, s, flags=0):
        def f(m):
            after = m.expand(rep) if isinstance(rep, str) else rep(m)
            ctx.log(rule, file, 0, m.group(0), after)
            return after
        return re.sub(pat, f, s, flags=flags)
    s = sub("R-assert", r"\b(?:debug_)?assert_eq!\(([^,;]+), ([^;,]+?)\);", r"runtime_assert(\1 == \2);", s)
    s = sub("R-assert", r"\b(?:debug_)?assert_ne!\(([^,;]+), ([^;,]+?)\);", r"runtime_assert(\1 != \2);", s)
    s = sub("R-assert", r"(?<![\w!])(?:debug_)?assert!\(((?:[^;,\"]|\"[^\"]*\")+?)\);", r"runtime_assert(\1);", s)
    s = sub("R-split", r"(\w+)\.split\('(.)'\)\.collect::<Vec<_>>\(\)", r"str_split_char(\1, '\2')", s)
    s = sub("R-split", r"(let (?:mut )?\w+\s*:\s*Vec<&str>\s*=\s*)(\w+)\.split\('(.)'\)\.collect\(\)", r"\1str_split_char(\2, '\3')", s)
    # R-lebytes: `x.to_le_bytes()` -> shim wrapper with the byte-wise specification (the std signature cannot be given an assume_specification)
    s = sub("R-lebytes", r"\b(\w+)\.to_le_bytes\(\)", r"u64_to_le_bytes(\1)", s)
    s = sub("R-add", r"\((\w+KeySeparator::default\(\)) \+ (&?\w+)\)", r"(std::ops::Add::add(\1, \2))", s)
    # R-constclosure: `|_| Enum::Variant` (argument ignored, unit-variant body) gets the ensures it trivially satisfies
    s = sub("R-constclosure", r"\|_\|\s*(\w+)::(\w+)\s*\)", r"|_e| -> (__r: \1) ensures __r is \2 { \1::\2 })", s)
    s = sub("R-underscore", r"\|_\|", "|_e|", s)
    # R-serjson: the serialize-to-bytes-then-parse idiom of GenericBuilder::set_claim -> one shim call (assumed to yield value.json())
    s = sub("R-serjson", r"let mut (\w+)(?:\s*:\s*Vec<u8>)? = Vec::new\(\);\s*let mut (\w+) = serde_json::Serializer::new\(&mut \1\);\s*erased_serde::serialize\(&(\w+), &mut \2\)\.unwrap\(\);\s*let (\w+)(?:\s*:\s*(?:serde_json::)?Value)? = serde_json::from_slice\(&\1\)\.unwrap\(\);",
            r"let \4: serde_json::Value = erased_serde::to_json_via_bytes(&\3);", s)
    # R-jsonindex: `j[&k]` on a local serde_json::Value -> the shim call with serde_json's Index semantics (Null when absent)
    # (the locals holding a serde_json::Value: declared with that type, or bound to to_value / from_str / a claim's to_json)
    vnames = set(["json", "raw"]) | set(re.findall(r"let (?:mut )?(\w+)\s*:\s*(?:serde_json::)?Value\b", s)) | set(re.findall(r"let (?:mut )?(\w+) = (?:serde_json::)?(?:to_value|from_str)\b", s))
    s = sub("R-jsonindex", r"(?<![\w.])(%s)\[&(\w+)\]" % "|".join(sorted(map(re.escape, vnames))), r"(*serde_json::value_index(&\1, &\2))", s)
    # locals bound to such an index expression are &Value: their (in)equality is serde_json's PartialEq, i.e. value_eq
    rnames = set(re.findall(r"let (\w+) = &\(\*serde_json::value_index\(", s))
    if rnames:
        alt = "|".join(sorted(map(re.escape, rnames)))
        s = sub("R-jsoncmp", r"(?<![\w.])(%s) != (%s)(?![\w.(])" % (alt, alt), r"!serde_json::value_eq(\1, \2)", s)
        s = sub("R-jsoncmp", r"(?<![\w.])(%s) == (%s)(?![\w.(])" % (alt, alt), r"serde_json::value_eq(\1, \2)", s)
        s = sub("R-jsoncmp", r"\*(%s) == (Value::Null)" % alt, r"serde_json::value_eq(\1, &\2)", s)
    VI = r"\(\*serde_json::value_index\([^()]*\)\)"
    s = sub("R-jsoncmp", r"(%s) == (Value::Null)" % VI, r"serde_json::value_eq(&\1, &\2)", s)
    s = sub("R-jsoncmp", r"(%s) != (%s)" % (VI, VI), r"!serde_json::value_eq(&\1, &\2)", s)
    # R-dynfn (call side): `validator(key, v)` on a `&dyn ValidatorFn` -> `validator.call(key, v)`
    s = sub("R-dynfn-call", r"\bvalidator\((\w+), ", r"validator.call(\1, ", s)
    # R-mapiter: `for P in &self.F {` over a HashMap field -> `for P in __it: self.F.iter() {` (definition of IntoIterator for &HashMap; names the ghost iterator)
    s = sub("R-mapiter", r"for (\([^)]*\)) in &self\.(\w+) \{", r"for \1 in __it: self.\2.iter() {", s)
    s = sub("R-mapiter", r"for (\([^)]*\)) in self\.(\w+)\.iter\(\) \{", r"for \1 in __it: self.\2.iter() {", s)
    # R-boxdyn: `claims.insert(k, Box::new(v))` (Box<T> coerced to Box<dyn erased_serde::Serialize>) -> shim performing exactly Box::new + coercion
    s = sub("R-boxdyn", r"(self\.claims\.insert\([^,]+, )Box::new\((\w+)\)\)", r"\1erased_serde::box_serialize(\2))", s)
    s = sub("R-boxdyn", r"(self\.claim_validators\.insert\([^,]+, )Box::new\((\w+)\)\)", r"\1box_validator(\2))", s)
    # R-mapindex: `&self.F[k]` on a HashMap field -> `self.F.get(k).unwrap()` (both panic exactly when the key is absent)
    s = sub("R-mapindex", r"&self\.(claim_validators|claims)\[(\w+)\]", r"self.\1.get(\2).unwrap()", s)
    # R-vecfrom: `Vec::from(x)` for a slice x is `x.to_vec()` (body of `impl From<&[T]> for Vec<T>`); vstd specifies to_vec only
    s = sub("R-vecfrom", r"\bVec::from\((\w+)\)", r"(\1).to_vec()", s)
    # R-stringfrom: `String::from(s)` for s: &str is `s.to_string()` (both copy the contents); vstd specifies the latter only
    s = sub("R-stringfrom", r"\bString::from\((\w+(?:\.\w+)*)\)", r"(\1).to_string()", s)
    # R-localtype: a fn-local `type A = T;` is inlined (Verus rejects item statements); `A::f` -> `<T>::f`
    for m in list(re.finditer(r"\btype (\w+) = ([^;]+);", s)):
        name, ty = m.group(1), m.group(2).strip()
        ctx.log("R-localtype", file, 0, m.group(0), "<%s>" % ty)
        s = s.replace(m.group(0), "")
        s = re.sub(r"\b%s::" % name, "<%s>::" % ty, s)
        s = re.sub(r"\b%s\b" % name, ty, s)
    # R-tryinto: `let P = CHAIN.try_into()?;` -> `let P = TryFrom::try_from(CHAIN)?;` (definition of the blanket TryInto impl)
    s = sub("R-tryinto", r"(let [^=;]+= )([^;]+?)\.try_into\(\)\?;", r"\1TryFrom::try_from(\2)?;", s)
    # R-vecslice: NAME[range].copy_from_slice(..) on a local `let mut NAME = vec![..]` -> NAME.as_mut_slice()[range]...
    # (definition of `impl IndexMut<I> for Vec<T>`: index_mut(&mut **self, i)); vstd specifies the slice form only
    for name in set(re.findall(r"let mut (\w+) = vec!\[", s)):
        i = 0
        while True:
            m = re.search(r"\b%s\[" % re.escape(name), s[i:])
            if not m: break
            st = i + m.start(); ob = i + m.end() - 1
            cb = find_matching(s, ob)
            if ".." in s[ob:cb] and re.match(r"\s*\.copy_from_slice\(", s[cb + 1:]):
                ctx.log("R-vecslice", file, 0, s[st:cb + 1], name + ".as_mut_slice()" + s[ob:cb + 1])
                s = s[:st] + name + ".as_mut_slice()" + s[ob:]
                i = cb + len(".as_mut_slice()")
            else:
                i = cb
    return s


# --------------------------------------------------------------------------------------------
# R-inline: a NEW private helper without a contract (found by the runner against the baseline) is inlined at its call sites,
# because Verus checks a caller against the callee's contract and a brand-new helper has none.  Only for helpers whose body has
# no `return` / `?` (which would leave the caller instead of the helper), no generics and identifier parameters; `Self::h(..)`,
# `self.h(..)` and free `h(..)` calls.  `h(a, b)` -> `{ let (p1, p2): (T1, T2) = (a, b); BODY }` - the definition of a call.
# --------------------------------------------------------------------------------------------
def collect_inline_defs(keys):
    """keys: set of 'file|impl::name' -> {name: def}; def = dict(params=[(pat, ty)], selfparam, body, impl, file)"""
    defs = {}
    for key in keys:
        rel, rest = key.split("|", 1)
        ik, name = rest.rsplit("::", 1)
        try:
            items, _ = load_items(rel)
        except Exception:
            continue
        def walk(its, parent):
            for it in its:
                if it.kind in ("impl", "trait") and it.children is not None:
                    walk(it.children, it)
                elif it.kind == "fn" and it.name == name and it.body is not None:
                    pk = impl_key(parent) if parent is not None else "-"
                    if pk != ik: continue
                    d = sig_split(R.text(it.sig))
                    if d["gen"].strip() or d["where"].strip(): continue
                    body = R.text(it.body).strip()
                    if re.search(r"\breturn\b", body): continue
                    has_q = "?" in body
                    if has_q:
                        # `?` inside the helper leaves the helper with Err(From::from(e)); inlined at a call site of the form `h(..)?` whose
                        # enclosing function has the SAME error type it leaves the caller with the same value.  Needs a tail `Ok(EXPR)`.
                        inner = body[1:-1].rstrip()
                        mt = re.search(r"(?:^|[;}\n])\s*Ok\(", inner)
                        tails = [mm for mm in re.finditer(r"\bOk\(", inner)]
                        if not tails: continue
                        last = tails[-1]
                        try:
                            cl = find_matching(inner, last.end() - 1)
                        except Exception:
                            continue
                        if inner[cl + 1:].strip() != "": continue      # the last Ok(..) is not the tail expression
                        # everything before must end a statement
                        if inner[:last.start()].rstrip() and inner[:last.start()].rstrip()[-1] not in ";}": continue
                        body = "{" + inner[:last.start()] + "(" + inner[last.end():cl] + ")" + "}"
                    if re.search(r"\b%s\s*\(" % re.escape(name), body): continue      # recursive
                    params = []; selfparam = None; ok = True
                    for prm in split_top(d["params"]):
                        prm = prm.strip()
                        if not prm: continue
                        if re.match(r"^&?\s*(mut\s+)?self$", prm) or re.match(r"^&'\w+\s+(mut\s+)?self$", prm): selfparam = prm; continue
                        m = re.match(r"^(mut\s+)?(\w+)\s*:\s*(.+)$", prm, re.S)
                        if not m or "impl " in m.group(3) or re.search(r"'(?!static)\w+", m.group(3)): ok = False; break
                        params.append((("mut " if m.group(1) else "") + m.group(2), m.group(3).strip()))
                    if not ok: continue
                    if name in defs: defs[name] = None; continue    # ambiguous name: do not inline
                    mret = re.match(r"Result\s*<.*,\s*([^<>,]+(?:<[^<>]*>)?)\s*>\s*$", (d["ret"] or "").strip(), re.S)
                    defs[name] = {"params": params, "selfparam": selfparam, "body": body, "impl": ik, "file": rel, "uses_self_ty": bool(re.search(r"\bSelf\b", body)),
                                  "has_q": has_q, "err": (mret.group(1).strip() if mret else None)}
        walk(items, None)
    return {k: v for k, v in defs.items() if v}

def inline_helpers(ctx, rel, ik, s, caller_ret=None):
    defs = getattr(ctx, "inline_defs", None)
    if not defs: return s
    mret = re.match(r"Result\s*<.*,\s*([^<>,]+(?:<[^<>]*>)?)\s*>\s*$", (caller_ret or "").strip(), re.S)
    caller_err = mret.group(1).strip() if mret else None
    def same_err(a, b):
        if not a or not b: return False
        na = re.sub(r"^(?:\w+::)+", "", a.replace(" ", "")); nb = re.sub(r"^(?:\w+::)+", "", b.replace(" ", ""))
        return na == nb and na != "Self::Error"
    for _round in range(3):
        changed = False
        for name, d in defs.items():
            if d["selfparam"]: pat = r"(?<![\w.:])self\.%s\s*\(" % re.escape(name)
            elif d["impl"] != "-": pat = r"(?<![\w.:])Self::%s\s*\(" % re.escape(name)
            else: pat = r"(?<![\w.:])%s\s*\(" % re.escape(name)
            i = 0
            while True:
                m = re.search(pat, s[i:])
                if not m: break
                st = i + m.start(); op = i + m.end() - 1
                cl = find_matching(s, op)
                args = [a.strip() for a in split_top(s[op + 1:cl]) if a.strip()]
                if len(args) != len(d["params"]): i = cl; continue
                if d.get("has_q"):
                    if not (s[cl + 1:cl + 2] == "?" and same_err(d.get("err"), caller_err)): i = cl; continue
                    cl = cl + 1      # the call's own `?` is consumed: the inlined body already propagates errors
                inner = d["body"][1:-1]
                if args:
                    pats = ", ".join(p for p, _ in d["params"]); tys = ", ".join(t for _, t in d["params"])
                    if len(args) == 1: bind = "let %s: %s = %s;" % (pats, tys, args[0])
                    else: bind = "let (%s): (%s) = (%s);" % (pats, tys, ", ".join(args))
                else: bind = ""
                new = "{ %s %s }" % (bind, inner)
                ctx.log("R-inline", rel, 0, s[st:cl + 1][:100], ("{ %s <body of %s> }" % (bind, name))[:160])
                s = s[:st] + new + s[cl + 1:]
                i = st + len(new); changed = True
        if not changed: break
    return s


# --------------------------------------------------------------------------------------------
# R-continue: Verus has no `continue` in `for` loops.  When every `continue;` of a loop body is the LAST statement of a top-level
# `if C { ...; continue; }` (no else) of that body, the loop body `S1; if C { T; continue; } REST` is rewritten to
# `S1; if C { T } else { REST }` - the same control flow.  Anything else is left alone (and then stays outside the verifier).
# --------------------------------------------------------------------------------------------
def _top_stmts(inner):
    """split a block's inner text into top-level statements (text pieces whose concatenation is the input)"""
    out = []; j = 0; n = len(inner); start = 0
    while j < n:
        c = inner[j]
        if c == '"':
            j += 1
            while j < n and inner[j] != '"':
                if inner[j] == "\\": j += 1
                j += 1
        elif c in "([":
            j = find_matching(inner, j)
        elif c == "{":
            k = find_matching(inner, j)
            rest = inner[k + 1:].lstrip()
            pre = inner[start:j]
            if re.match(r"\s*(if|for|while|loop|match|unsafe)\b", pre) and not rest.startswith((".", ";", "?", ")", ",", "else")):
                out.append(inner[start:k + 1]); start = k + 1
            j = k
        elif c == ";":
            out.append(inner[start:j + 1]); start = j + 1
        j += 1
    if inner[start:].strip(): out.append(inner[start:])
    elif inner[start:]: out[-1:] = [out[-1] + inner[start:]] if out else [inner[start:]]
    return out

def _rewrite_continue_block(inner):
    if "continue" not in inner: return inner
    stmts = _top_stmts(inner)
    for idx, st in enumerate(stmts):
        m = re.match(r"(\s*)if\b", st)
        if not m or "continue" not in st: continue
        ob = st.find("{")
        # find the block's `{` at depth 0 of the condition
        j = m.end(); 
        while j < len(st):
            if st[j] in "([": j = find_matching(st, j)
            elif st[j] == "{": break
            j += 1
        if j >= len(st): return None
        cb = find_matching(st, j)
        if st[cb + 1:].strip(): return None            # has else / trailing code
        body = st[j + 1:cb]
        mm = re.search(r"continue\s*;\s*$", body)
        if not mm or "continue" in body[:mm.start()]: return None
        rest = "".join(stmts[idx + 1:])
        rest2 = _rewrite_continue_block(rest)
        if rest2 is None: return None
        before = "".join(stmts[:idx])
        if "continue" in before: return None
        return before + st[:j + 1] + body[:mm.start()] + "} else {" + rest2 + "}"
    return None if re.search(r"\bcontinue\b", inner) else inner

def rule_continue(ctx, file, s):
    if not re.search(r"\bcontinue\s*;", s): return s
    i = 0
    while True:
        m = re.search(r"\bfor\s+[^;{]*?\bin\b", s[i:])
        if not m: break
        st = i + m.start(); j = st
        while j < len(s):
            if s[j] in "([": j = find_matching(s, j)
            elif s[j] == "{": break
            j += 1
        if j >= len(s): break
        cb = find_matching(s, j)
        inner = s[j + 1:cb]
        if re.search(r"\bcontinue\s*;", inner) and not re.search(r"\b(for|while|loop)\b", inner):
            new = _rewrite_continue_block(inner)
            if new is not None and new != inner:
                ctx.log("R-continue", file, 0, "for ... { ..; if C { ..; continue; } REST }", "for ... { ..; if C { .. } else { REST } }")
                s = s[:j + 1] + new + s[cb:]
                cb = j + 1 + len(new)
        i = j + 1
    return s


# --------------------------------------------------------------------------------------------
# R-layout: the layout of a function body is canonicalised before any rule looks at it - continuation lines are joined (a method
# chain, an index expression or an argument list broken over several lines becomes one line; a trailing comma before `)` / `]` that
# only exists because of the line break is dropped).  Token stream unchanged otherwise; makes every textual rule and hint anchor
# independent of how rustfmt happened to break the lines.
# --------------------------------------------------------------------------------------------
def join_lines(body):
    toks = R.lex(body)
    out = []; n = len(toks)
    def prev_tok():
        for t in reversed(out):
            if t.strip(): return t
        return ""
    i = 0
    while i < n:
        t = toks[i]
        if t.kind == "ws" and "\n" in t.text:
            nxt = next((x.text for x in toks[i + 1:] if x.kind != "ws"), "")
            prv = prev_tok()
            if prv == "," and nxt in (")", "]"):
                # drop the trailing comma
                for k in range(len(out) - 1, -1, -1):
                    if out[k].strip(): out.pop(k); break
                out.append("")
            elif nxt in (".", "?", ")", "]", ",", ";"): out.append("")
            elif prv in ("(", "["): out.append("")
            elif nxt == "[" and (re.match(r"[\w)\]]$", prv[-1:] or " ")): out.append("")
            else: out.append(" ")
        else:
            out.append(t.text)
        i += 1
    return "".join(out)

def norm_code(txt):
    """normal form for the 'did this function change' hash: tokens only (no layout), no trailing commas before closers,
    no block braces around a single-expression match arm"""
    toks = [t.text for t in R.lex(txt) if t.kind not in ("ws", "comment")]
    out = []
    for i, t in enumerate(toks):
        if t == "," and i + 1 < len(toks) and toks[i + 1] in (")", "]", "}"): continue
        out.append(t)
    s2 = " ".join(out)
    # `=> { EXPR }` with no statement inside -> `=> EXPR`
    for _ in range(6):
        m = re.search(r"=> \{ ([^{};]*(?:\([^{};]*\)[^{};]*)*) \}", s2)
        if not m: break
        s2 = s2[:m.start()] + "=> " + m.group(1) + " ," + s2[m.end():]
    s2 = re.sub(r"(?: ,)+", " ,", s2)
    s2 = re.sub(r" , (?=[)\]}])", " ", s2)
    return s2

FOLD_SRC = re.compile(r"Self\((\w+)\.iter\(\)\.fold\((\w+), \|mut (\w+), (\w+)\| \{(.*?;)\s*\3\s*\}\)\)", re.S)
def rule_fold(ctx, file, s):
    def f(m):
        it, init, acc, x, body = m.groups()
        after = "Self({ let mut %s = %s; for %s in __it: %s.iter() {%s\n        } %s })" % (acc, init, x, it, body, acc)
        ctx.log("R-fold", file, 0, m.group(0), after)
        return after
    return FOLD_SRC.sub(f, s)

# --------------------------------------------------------------------------------------------
# signature handling
# --------------------------------------------------------------------------------------------
def sig_split(sig):
    """sig text 'pub fn name<G>(params) -> Ret where W' -> dict"""
    m = re.search(r"\bfn\s+(\w+)\s*", sig)
    pre = sig[:m.start()]; name = m.group(1); i = m.end()
    gen = ""
    if sig[i] == "<":
        d = 0; j = i
        while True:
            c = sig[j]
            if c == "<": d += 1
            elif c == ">" and sig[j - 1] != "-":
                d -= 1
                if d == 0: break
            j += 1
        gen = sig[i + 1:j]; i = j + 1
    while sig[i].isspace(): i += 1
    assert sig[i] == "(", sig
    j = find_matching(sig, i)
    params = sig[i + 1:j]
    rest = sig[j + 1:]
    ret = None; where = ""
    mw = re.search(r"\bwhere\b", rest)
    if mw:
        where = rest[mw.start():].strip(); rest = rest[:mw.start()]
    mr = re.search(r"->", rest)
    if mr: ret = rest[mr.end():].strip()
    return {"pre": pre, "name": name, "gen": gen, "params": params, "ret": ret, "where": where}

def sig_join(d, retname=None):
    g = "<%s>" % d["gen"] if d["gen"].strip() else ""
    s = "%sfn %s%s(%s)" % (d["pre"], d["name"], g, d["params"])
    if d["ret"] is not None:
        if retname: s += " -> (%s: %s)" % (retname, d["ret"])
        else: s += " -> %s" % d["ret"]
    if d["where"]: s += "\n    " + d["where"]
    return s

def rule_implarg(ctx, file, d):
    """R-implarg: `x: (impl B)`, `x: &impl B`, `x: impl B` -> named generic parameter (definition of argument-position impl Trait)."""
    ps = split_top(d["params"])
    newps = []; added = []
    for p in ps:
        m = re.match(r"^(\s*(?:mut\s+)?(\w+)\s*:\s*)(&\s*)?\(?\s*impl\s+(.*?)\)?\s*$", p, re.S)
        if m and "impl" in p:
            nm = m.group(2); tn = "__I_%s" % nm
            bounds = m.group(4).strip()
            # balance parentheses that belonged to "(impl ...)"
            if bounds.count(")") > bounds.count("("): bounds = bounds[:bounds.rindex(")")]
            added.append("%s: %s" % (tn, bounds))
            newp = "%s%s%s" % (m.group(1), m.group(3) or "", tn)
            ctx.log("R-implarg", file, 0, p.strip(), newp.strip() + "  [generic %s: %s]" % (tn, bounds))
            newps.append(newp)
        else:
            newps.append(p)
    if added:
        d["params"] = ",".join(newps)
        g = [x for x in split_top(d["gen"]) if x.strip()]
        d["gen"] = ", ".join([x.strip() for x in g] + added)
    return d

# --------------------------------------------------------------------------------------------
# per-file processing
# --------------------------------------------------------------------------------------------
TEST_ATTR = re.compile(r"#\[cfg\((all\()?\s*test\b")
CFG_ATTR = re.compile(r"#!?\[cfg\(")
DROP_INNER = re.compile(r"#!\[(allow|forbid|doc|deny|warn|cfg)\b")

def strip_field_attrs(ctx, file, s):
    """remove #[cfg(...)] / #[error(...)] / #[from] occurring inside item bodies (fields, variants)."""
    def rm(pat, key, s):
        while True:
            m = re.search(pat, s)
            if not m: return s
            j = find_matching(s, m.start() + 1)
            ctx.dropped[key] = ctx.dropped.get(key, 0) + 1
            s = s[:m.start()] + s[j + 1:]
    s = rm(r"#\[cfg\(", "cfg_attrs", s)
    s = rm(r"#\[error\(", "derive_attrs", s)
    return s

def impl_key(it):
    return R.norm(R.text(it.header)) if it is not None else "-"

class FileEmitter:
    def __init__(self, ctx, rel, out, stub=False):
        self.ctx = ctx; self.rel = rel; self.out = out; self.stub = stub
        self.extra = []   # generated companion items (text)

    def emit_items(self, items, parent=None, indent=""):
        for it in items:
            self.emit_item(it, parent, indent)

    def keep_attrs(self, it):
        keep = []
        tuple_field = it.kind == "struct" and re.search(r"\(\s*(pub\s*)?\(", R.text(it.toks)) is not None
        for a in it.attrs:
            t = R.text(a)
            if CFG_ATTR.match(t): self.ctx.dropped["cfg_attrs"] += 1; continue
            if re.match(r"#\[(allow|doc|must_use|inline)\b", t): self.ctx.dropped["allow_attrs"] += 1; continue
            if re.match(r"#\[zeroize\(", t): self.ctx.dropped["derive_attrs"] += 1; continue
            m = re.match(r"#\[derive\((.*)\)\]$", t, re.S)
            if m:
                ds = [x.strip() for x in m.group(1).split(",") if x.strip()]
                nds = [x for x in ds if x not in ("Error", "Zeroize", "thiserror::Error")]
                if tuple_field:
                    # derived Clone/Debug on a struct with a tuple-typed field: outside Verus ("built-in instance Misc"); dropped, not verified
                    nds = [x for x in nds if x not in ("Clone", "Debug")]
                if len(nds) != len(ds): self.ctx.dropped["derive_attrs"] += 1
                if not nds: continue
                t = "#[derive(%s)]" % ", ".join(nds)
            keep.append(t)
        return keep

    def emit_item(self, it, parent, indent):
        ctx = self.ctx
        if it.kind == "inner_attr":
            if DROP_INNER.match(R.text(it.toks)): ctx.dropped["allow_attrs"] += 1; return
            raise ExtractError("%s:%d unsupported inner attribute %s" % (self.rel, it.line, R.text(it.toks)))
        if any(TEST_ATTR.match(R.text(a)) for a in it.attrs):
            ctx.dropped["test_items"] += 1; return
        attrs = self.keep_attrs(it)
        if it.kind == "mod_decl":
            return  # handled by tree builder
        if it.kind == "fn":
            self.emit_fn(it, parent, attrs, indent); return
        if it.kind in ("impl", "trait") and it.children is not None:
            hdr = R.text(it.header).replace("crate::core", "crate::rp_core")
            hdr = self.rule_header(it, hdr)
            self.out.add("".join(a + "\n" for a in attrs) + hdr + " {\n")
            ii = self.ctx.specs.implitems.get((self.rel, R.norm(R.text(it.header))))
            if ii:
                self.out.add(ii + "\n", {"file": self.rel, "part": "implitems"}); self.ctx.used_implitems.add((self.rel, R.norm(R.text(it.header))))
            self.emit_items(it.children, it, indent + "    ")
            self.out.add("}\n\n")
            self.companions_for_impl(it)
            if it.kind == "impl": self.jsonspec_companion(it)
            return
        # other items: verbatim text minus attrs handled
        body = R.text(it.toks[sum(len(a) for a in it.attrs):]) if False else None
        # reconstruct text after attributes
        k = 0
        toks = it.toks
        # skip attr tokens + interleaved ws
        idx = 0
        for a in it.attrs:
            # find the position of this attr's last token in toks
            last = a[-1]
            while toks[idx] is not last: idx += 1
            idx += 1
        txt = R.text(toks[idx:]).strip()
        raw = txt
        txt = self.rule_item_text(it, txt)
        if txt is None: return
        self.out.add("".join(a + "\n" for a in attrs) + txt + "\n\n", {"file": self.rel, "part": "item", "kind": it.kind, "name": it.name, "use_norm": R.norm(raw) if it.kind == "use" else None})

    # ---- item-level rules -------------------------------------------------------------
    def rule_header(self, it, hdr):
        if it.kind == "trait" and re.match(r"pub\s*\(crate\)\s*trait", hdr):
            new = re.sub(r"pub\s*\(crate\)\s*trait", "pub trait", hdr)
            self.ctx.log("R-pubtrait", self.rel, it.line, hdr, new); hdr = new
        if it.kind == "trait":
            m = re.search(r":\s*(.*)$", hdr, re.S)
            if m and re.search(r"\bDisplay\b", m.group(1)) and "DispSpec" not in hdr:
                new = hdr.rstrip() + " + DispSpec"
                self.ctx.log("R-ghostsuper", self.rel, it.line, hdr, new); hdr = new
        return hdr

    def rule_item_text(self, it, txt):
        ctx = self.ctx
        if it.kind == "use":
            if re.match(r"(pub\s+)?use\s+(thiserror|zeroize)\b", txt): return None
            if (self.rel, R.norm(txt)) in self.ctx.drop_uses: return None
            txt = txt.replace("crate::core", "crate::rp_core")
            return txt
        if it.kind == "static":
            m = re.match(r'static (\w+): &str = ("[^"]*");$', txt)
            if m:
                new = "exec static %s: &'static str ensures %s@ == %s@ { %s }" % (m.group(1), m.group(1), m.group(2), m.group(2))
                ctx.log("R-static", self.rel, it.line, txt, new); return new
            # a static the verifier cannot take (interior mutability, lazy initialisation, ...): the item is left out and every function
            # that names it becomes a front-end error -> outside the verifier's reach (runner), never silently accepted
            ctx.dropped["unsupported_items"] = ctx.dropped.get("unsupported_items", 0) + 1
            ctx.log("D-6", self.rel, it.line, txt[:80], "(item left out: unsupported static)"); return None
        if it.kind == "trait":  # trait without children? (has braces always) -> handled above
            return txt
        if it.kind in ("struct", "enum"):
            txt2 = strip_field_attrs(ctx, self.rel, txt)
            if it.kind == "struct":
                txt2 = self.rule_pubfields(it, txt2)
            m = re.match(r"(pub\s*(\([^)]*\))?\s*)?(struct|enum)\b", txt2)
            if m and (m.group(1) or "").strip() != "pub":
                new = "pub " + txt2[m.start(3):]
                ctx.log("R-pubitems", self.rel, it.line, txt2[:40], new[:40]); txt2 = new
            if it.kind == "enum" and "#[from]" in txt2:
                self.synth_from(it, txt2)
                txt2 = txt2.replace("#[from]", "")
            txt2 = txt2.replace("crate::core", "crate::rp_core")
            if it.kind == "trait": pass
            return txt2
        if it.kind == "type":
            txt = re.sub(r"\s+", " ", txt).strip()      # R-layout for one-statement items
            m = re.match(r"pub type (\w+) = dyn Fn\(&str, &Value\) -> Result<\(\), PasetoClaimError>;$", txt)
            if m:
                new = ("pub trait %s {\n    // the verdict is a function of (key, value) and the single clock reading time::now_spec()\n"
                       "    spec fn verdict(&self, key: Seq<char>, value: Value) -> bool;\n"
                       "    fn call(&self, key: &str, value: &Value) -> (r: Result<(), PasetoClaimError>) ensures r is Ok <==> self.verdict(key@, *value);\n}\n"
                       "impl<'a> %s for &'a (dyn %s + 'static) {\n    open spec fn verdict(&self, key: Seq<char>, value: Value) -> bool { (**self).verdict(key, value) }\n"
                       "    fn call(&self, key: &str, value: &Value) -> (r: Result<(), PasetoClaimError>) { (**self).call(key, value) }\n}" % (m.group(1), m.group(1), m.group(1)))
                ctx.log("R-dynfn", self.rel, it.line, txt, new); return new
            txt = re.sub(r"Box<ValidatorFn>", "Box<dyn ValidatorFn>", txt)
            return txt.replace("crate::core", "crate::rp_core")
        if it.kind == "const":
            new = re.sub(r"^pub\s*\((self|crate)\)\s*const", "pub const", txt)
            if new != txt: ctx.log("R-pubitems", self.rel, it.line, txt[:40], new[:40])
            # the elided lifetime of a reference in a const's type is 'static in Rust; Verus wants it written
            m = re.match(r"((?:pub\s+)?const\s+\w+\s*:)([^=]*)(=.*)$", new, re.S)
            if m and re.search(r"&(?!')", m.group(2)):
                new2 = m.group(1) + re.sub(r"&(?!')", "&'static ", m.group(2)) + m.group(3)
                ctx.log("R-constlife", self.rel, it.line, new[:60], new2[:60]); new = new2
            if (self.rel, it.name) in getattr(ctx, "ext_consts", ()):
                # the initialiser is outside Verus (found by the runner's front-end isolation): keep the item, value unknown to the verifier
                ctx.log("R-extconst", self.rel, it.line, new[:60], "#[verifier::external_body] " + new[:40]); new = "#[verifier::external_body] " + new
            return new
        if it.kind == "trait":
            return txt
        if it.kind == "other":
            ctx.dropped["unsupported_items"] = ctx.dropped.get("unsupported_items", 0) + 1
            ctx.log("D-6", self.rel, it.line, txt[:80], "(item left out: macro item such as thread_local!)"); return None
        return txt.replace("crate::core", "crate::rp_core")

    def rule_pubfields(self, it, txt):
        """R-pubfields: every struct field becomes `pub` (visibility widening only) so out-of-module contracts can name it."""
        m = re.search(r"[\({]", txt[txt.index(it.name) + len(it.name):])
        if not m: return txt
        # skip generics / where clause: find the first '(' or '{' at angle depth 0 after the name
        i = txt.index(it.name) + len(it.name); d = 0
        while i < len(txt):
            c = txt[i]
            if c == "<": d += 1
            elif c == ">" and txt[i - 1] != "-": d -= 1
            elif c in "({" and d == 0: break
            i += 1
        if i >= len(txt): return txt
        j = find_matching(txt, i)
        fields = split_top(txt[i + 1:j])
        nf = []
        for f in fields:
            if not f.strip(): continue
            # attributes on the field (#[allow(..)], #[serde(..)], ...) stay in front of the visibility
            pre = ""
            while True:
                ma = re.match(r"\s*#\[", f)
                if not ma: break
                ja = find_matching(f, ma.end() - 1)
                pre += f[:ja + 1]; f = f[ja + 1:]
            g = re.sub(r"^(\s*)pub\s*(\([^)]*\))?\s*", r"\1", f)
            lead = re.match(r"\s*", g).group(0)
            nf.append(pre + lead + "pub " + g[len(lead):])
        new = txt[:i + 1] + ",".join(nf) + ("," if txt[i] == "{" and nf else "") + ("\n" if txt[i] == "{" else "") + txt[j:]
        if new != txt: self.ctx.log("R-pubfields", self.rel, it.line, re.sub(r"\s+", " ", txt)[:150], re.sub(r"\s+", " ", new)[:150])
        return new

    def synth_from(self, it, txt):
        """D-4: for each `#[from] source: T` (or tuple `#[from] T`) synthesise what thiserror generates."""
        en = it.name
        for m in re.finditer(r"(\w+)\s*\{\s*#\[from\]\s*source:\s*([\w:]+),?\s*\}", txt):
            v, t = m.group(1), m.group(2).replace("crate::core", "crate::rp_core")
            self.extra.append(
                "impl From<%s> for %s { fn from(source: %s) -> (r: Self) ensures r == (%s::%s{source}) { %s::%s{source} } }\n"
                "impl vstd::std_specs::convert::FromSpecImpl<%s> for %s { open spec fn obeys_from_spec() -> bool { true } "
                "open spec fn from_spec(source: %s) -> Self { %s::%s{source} } }\n" % (t, en, t, en, v, en, v, t, en, t, en, v))
            self.ctx.log("D-4-from", self.rel, it.line, m.group(0), "impl From<%s> for %s" % (t, en))
            self.ctx.gen_axioms.append((self.rel, en, v, t, "{source: e}"))
        for m in re.finditer(r"(\w+)\s*\(\s*#\[from\]\s*([\w:]+)\s*\)", txt):
            v, t = m.group(1), m.group(2)
            self.extra.append(
                "impl From<%s> for %s { fn from(source: %s) -> (r: Self) ensures r == (%s::%s(source)) { %s::%s(source) } }\n"
                "impl vstd::std_specs::convert::FromSpecImpl<%s> for %s { open spec fn obeys_from_spec() -> bool { true } "
                "open spec fn from_spec(source: %s) -> Self { %s::%s(source) } }\n" % (t, en, t, en, v, en, v, t, en, t, en, v))
            self.ctx.log("D-4-from", self.rel, it.line, m.group(0), "impl From<%s> for %s" % (t, en))
            self.ctx.gen_axioms.append((self.rel, en, v, t, "(e)"))

    def jsonspec_companion(self, it):
        """R-jsonspec: every `impl serde::Serialize for T` gets `impl JsonSpec for T { uninterp spec fn json }` (the JSON tree is fixed by an axiom in contracts/)"""
        h = re.sub(r"\s+", " ", R.text(it.header)).strip()
        m = re.match(r"impl\s*(<.*?>)?\s*serde::Serialize for (.+?)(\s+where .*)?$", h)
        if not m: return
        g = m.group(1) or ""; ty = m.group(2)
        self.extra.append("impl%s serde::JsonSpec for %s { uninterp spec fn json(&self) -> serde_json::Value; }\n" % (g, ty))
        self.ctx.log("R-jsonspec", self.rel, it.line, h, "impl JsonSpec for " + ty)

    def companions_for_impl(self, it):
        """R-companion: vstd *SpecImpl companions for From/TryFrom/PartialEq/Add impls (obeys_* = false unless given in vspec items)."""
        if it.kind != "impl": return
        hdr = R.norm(R.text(it.header))
        key = (self.rel, hdr)
        if key in self.ctx.specs.companions:
            self.extra.append(self.ctx.specs.companions[key] + "\n"); self.ctx.used_companions.add(key); return
        h = R.text(it.header)
        h = re.sub(r"\s+", " ", h).strip().replace("crate::core", "crate::rp_core")
        m = re.match(r"impl\s*(<.*?>)?\s*(?:std::convert::|core::convert::)?(From|TryFrom|PartialEq|Add)\s*(<(.*)>)?\s+for\s+(.+?)(\s+where\s+.*)?$", h)
        if not m: return
        # generics: need to find the balanced <...> after impl
        g = ""
        rest = h[4:].lstrip()
        if rest.startswith("<"):
            d = 0
            for j, c in enumerate(rest):
                if c == "<": d += 1
                elif c == ">" and rest[j - 1] != "-":
                    d -= 1
                    if d == 0: break
            g = rest[:j + 1]; rest = rest[j + 1:].lstrip()
        m = re.match(r"(?:std::convert::|core::convert::)?(From|TryFrom|PartialEq|Add)\s*(.*)$", rest)
        if not m: return
        tr = m.group(1); rest = m.group(2).lstrip()
        targ = None
        if rest.startswith("<"):
            d = 0
            for j, c in enumerate(rest):
                if c == "<": d += 1
                elif c == ">" and rest[j - 1] != "-":
                    d -= 1
                    if d == 0: break
            targ = rest[1:j]; rest = rest[j + 1:].lstrip()
        m = re.match(r"for\s+(.+?)(\s+where\s+.*)?$", rest)
        if not m: return
        ty = m.group(1).strip(); wh = (m.group(2) or "").strip()
        assoc = {}
        for ch in it.children:
            if ch.kind == "type":
                mm = re.match(r"type\s+(\w+)\s*=\s*(.*);$", R.text(ch.toks).strip(), re.S)
                if mm: assoc[mm.group(1)] = mm.group(2).replace("crate::core", "crate::rp_core")
        if tr == "From":
            c = "impl%s vstd::std_specs::convert::FromSpecImpl<%s> for %s %s { open spec fn obeys_from_spec() -> bool { false } uninterp spec fn from_spec(v: %s) -> Self; }" % (g, targ, ty, wh, targ)
        elif tr == "TryFrom":
            c = "impl%s vstd::std_specs::convert::TryFromSpecImpl<%s> for %s %s { open spec fn obeys_try_from_spec() -> bool { false } uninterp spec fn try_from_spec(v: %s) -> Result<Self, %s>; }" % (g, targ, ty, wh, targ, assoc.get("Error", "()"))
        elif tr == "PartialEq":
            rhs = targ or "Self"
            c = "impl%s vstd::std_specs::cmp::PartialEqSpecImpl<%s> for %s %s { open spec fn obeys_eq_spec() -> bool { false } uninterp spec fn eq_spec(&self, other: &%s) -> bool; }" % (g, rhs, ty, wh, rhs)
        else:
            c = "impl%s vstd::std_specs::ops::AddSpecImpl<%s> for %s %s { open spec fn obeys_add_spec() -> bool { false } open spec fn add_req(self, rhs: %s) -> bool { true } uninterp spec fn add_spec(self, rhs: %s) -> %s; }" % (g, targ, ty, wh, targ, targ, assoc.get("Output", "()"))
        self.ctx.log("R-companion", self.rel, it.line, hdr, c[:120])
        self.extra.append(c + "\n")

    # ---- functions ----------------------------------------------------------------------
    def emit_fn(self, it, parent, attrs, indent):
        ctx = self.ctx
        ik = impl_key(parent) if parent is not None and parent.kind in ("impl", "trait") else "-"
        key = (self.rel, ik, it.name)
        self.cur_key = "%s|%s::%s" % key; self.old_key = None
        spec = ctx.specs.fns.get(key)
        if spec is None and key in getattr(ctx, "renames", {}):
            # R-renamed: the runner found that a contracted function was renamed (same impl, same signature, old name gone): the contract follows it
            okey = ctx.renames[key]; orel, orest = okey.split("|", 1); oik, oname = orest.rsplit("::", 1)
            spec = ctx.specs.fns.get((orel, oik, oname))
            if spec: ctx.log("R-renamed", self.rel, it.line, okey, "%s|%s::%s" % key); self.old_key = okey
        if spec: spec.used = True
        if ("%s|%s::%s" % key) in ctx.drop_contract_fns: spec = None   # contract no longer fits the (changed) signature
        sig = R.text(it.sig).replace("crate::core", "crate::rp_core")
        if "ValidatorFn" in sig:
            new = re.sub(r"(&'static\s+)ValidatorFn\b", r"\1dyn ValidatorFn", sig)
            if new != sig: ctx.log("R-dynfn", self.rel, it.line, sig.strip()[:120], new.strip()[:120]); sig = new
        if re.search(r"[(,]\s*_\s*:", sig):
            n_ = [0]
            def us(m): n_[0] += 1; return "%s_unused%d:" % (m.group(1), n_[0])
            new = re.sub(r"([(,]\s*)_\s*:", us, sig); ctx.log("R-underscore", self.rel, it.line, sig.strip()[:80], new.strip()[:80]); sig = new
        d = sig_split(sig)
        pn = param_names(d["params"])
        bp = getattr(ctx, "baseline_params", {}).get(getattr(self, "old_key", None) or "%s|%s::%s" % key)
        if spec and pn and bp and len(pn) == len(bp) and [t for _, t in pn] == [t for _, t in bp] and [n for n, _ in pn] != [n for n, _ in bp]:
            mapping = {o: n for (o, _), (n, _) in zip(bp, pn) if o != n}
            if not (set(mapping.values()) & set(o for o, _ in bp)):     # no swap / capture
                ctx.log("R-paramrename", self.rel, it.line, str(sorted(mapping.items())), "contract parameter names follow the renamed parameters")
                spec = rename_spec(spec, mapping)
        d = rule_implarg(ctx, self.rel, d)
        body = R.text(it.body) if it.body is not None else None
        self.dropped_hints = []
        is_display = parent is not None and parent.kind == "impl" and re.search(r"\b(Display|Debug)\s+for\b", R.text(parent.header)) and it.name == "fmt"
        ext = False
        if is_display:
            ext = True
            if re.search(r"\bDisplay\s+for\b", R.text(parent.header)):
                self.disp_spec(parent, body)
        if spec and spec.external_body: ext = True

        has_ens = bool(spec and spec.ensures)
        sigtxt = sig_join(d, spec.ret if (spec and d["ret"] is not None) else None)
        chunks = []
        meta_base = {"file": self.rel, "impl": ik, "fn": it.name, "src_line": it.line}
        pre = "".join(indent + a + "\n" for a in attrs)
        if spec:
            for a in spec.attrs: pre += indent + a.strip() + "\n"
        stub_this = (self.stub or ("%s|%s::%s" % key) in self.ctx.stub_fns) and body is not None
        forced_reason = None
        if body is not None and not ext and not stub_this:
            b0 = body.replace("crate::core", "crate::rp_core")
            nkf = len(re.findall(r"\bKey(?:::<\d+>)?::from\(\s*&?\w", b0)) - len(re.findall(r"\bKey(?:::<\d+>)?::from\(\s*(?:output|\*)", b0))
            declared = int(spec.opts.get("keyfrom", 0)) if spec else 0
            if nkf != declared:
                # `Key::from(<slice>)` panics on a wrong length and a trait-impl method cannot carry `requires` (DESIGN 1.2): a function whose
                # number of such call sites differs from what its contract declares is put outside the verifier's reach, not silently accepted
                stub_this = True; forced_reason = "%d Key::from(<slice>) call site(s) but the contract declares keyfrom=%d (DESIGN 1.2)" % (nkf, declared)
        if ext or stub_this:
            pre += indent + "#[verifier::external_body]\n"
        self.out.add(pre)
        self.out.add(indent + sigtxt.strip() + "\n", dict(meta_base, part="sig"))
        if spec:
            if spec.requires:
                self.out.add(indent + "    requires\n")
                for lab, t in spec.requires:
                    self.out.add(indent + "        " + t.strip().rstrip(",") + ",\n", dict(meta_base, part="requires", label=lab))
            if spec.ensures:
                self.out.add(indent + "    ensures\n")
                for lab, t in spec.ensures:
                    self.out.add(indent + "        " + t.strip().rstrip(",") + ",\n", dict(meta_base, part="ensures", label=lab))
        abody = body or ""
        if body is None:
            self.out.add(indent + ";\n\n")
        else:
            if stub_this and not ext:
                self.out.add(indent + "{ unimplemented!() }\n\n")
            else:
                b = body.replace("crate::core", "crate::rp_core")
                if not ext:
                    b = join_lines(b)
                    b = inline_helpers(ctx, self.rel, ik, b, d["ret"])
                    abody = b      # what the function does once new helpers are inlined: basis of the callee / loop / closure statistics
                    b = rule_fold(ctx, self.rel, b)
                    b = rule_continue(ctx, self.rel, b)
                    b = rule_body_text(ctx, self.rel, b)
                    b = self.rule_lift(b, spec, it)
                    b = self.weave_body(b, spec, it)
                self.out.add(indent + b + "\n\n", dict(meta_base, part="body"))
        self.dropped_hints = getattr(self, "dropped_hints", [])
        # the hash that tells "this function changed" ignores white space and the NAMES of the parameters (a pure parameter rename is not a change)
        htxt = R.text(it.sig) + (body or "")
        for pi, (pname, _) in enumerate(pn or []): htxt = re.sub(r"(?<![\w.])%s\b" % re.escape(pname), "__p%d" % pi, htxt)
        bh = hashlib.sha1(norm_code(htxt).encode()).hexdigest()[:16]
        ctx.fn_index.append({"file": self.rel, "impl": ik, "fn": it.name, "line": it.line, "external_body": bool(ext or self.stub), "stubbed": bool(stub_this and not ext), "forced_stub_reason": forced_reason,
                             "body_hash": bh, "hints_dropped": list(self.dropped_hints) if (body is not None and not ext and not stub_this) else [],
                             "body_text": re.sub(r"\s+", " ", body or "")[:6000],
                             "params": pn, "closure_calls": len(re.findall(r"\.(?:map|map_err|and_then|or_else|ok_or_else|unwrap_or_else|filter|filter_map|for_each|fold|any|all|then|map_or|map_or_else|find|position|retain)\(\s*(?:move\s*)?\|", abody)),
                             "callees": sorted(set(re.findall(r"\b([A-Za-z_]\w*)\s*(?:::\s*<[^<>()]*>)?\s*\(", re.sub(r'"(?:[^"\\]|\\.)*"', '""', abody))) - {"if", "while", "for", "match", "return", "Some", "Ok", "Err", "None", "loop", "in", "let", "as"} | set(m + "!" for m in re.findall(r"\b([a-z_]\w*)!\s*[\(\[\{]", re.sub(r'"(?:[^"\\]|\\.)*"', '""', abody)))),
                             "loops": len(re.findall(r"\b(?:for|while|loop)\b", re.sub(r'"(?:[^"\\]|\\.)*"', '""', abody))),
                             "sig_norm": R.norm(re.sub(r"\bfn\s+%s\b" % re.escape(it.name), "fn _", R.text(it.sig), count=1)),
                             "contract": bool(spec), "safety": spec.safety if spec else [],
                             "labels": [l for l, _ in (spec.requires + spec.ensures)] if spec else [],
                             "ens_labels": [l for l, _ in spec.ensures] if spec else [],
                             "ens_texts": [(l, t) for l, t in spec.ensures] if spec else []})

    def rule_lift(self, b, spec, it):
        """R-lift: non-capturing closure literal `&|a, b| { BODY }` passed where a `&'static ValidatorFn` is expected ->
        `&__ClosureN` with `impl ValidatorFn for __ClosureN { fn call(&self, a: &str, b: &Value) -> .. BODY }` (defunctionalisation)."""
        n = 0
        while True:
            m = re.search(r"&\|(\w+), (\w+)\| \{", b)
            if not m: break
            ob = m.end() - 1
            cb = find_matching(b, ob)
            body = b[ob:cb + 1]
            a1 = "_key" if m.group(1) == "_" else m.group(1); a2 = m.group(2)
            name = "__Closure%d_%s" % (n, re.sub(r"\W", "_", os.path.basename(self.rel)[:-3]))
            if self.rel.endswith("paseto_parser.rs"):
                body2 = re.sub(r"\bif (\w+) <= (\w+) \{", r"if \1.le(&\2) {", body)
                body2 = re.sub(r"\bif (\w+) >= (\w+) \{", r"if \2.le(&\1) {", body2)
                body2 = re.sub(r"\bif (\w+) < (\w+) \{", r"if !\2.le(&\1) {", body2)
                body2 = re.sub(r"\bif (\w+) > (\w+) \{", r"if !\1.le(&\2) {", body2)
                if body2 != body: self.ctx.log("R-le", self.rel, it.line, "a <= b / a >= b / a < b / a > b on OffsetDateTime", "a.le(&b) / b.le(&a) / !b.le(&a) / !a.le(&b)"); body = body2
            verdict = (spec.closures.get(n) if spec else None) or "true"
            lab = spec.opts.get("closure%d" % n) if spec else None
            self.extra.append(("pub struct %s;\nimpl ValidatorFn for %s {\n    open spec fn verdict(&self, key: Seq<char>, value: Value) -> bool {\n%s\n    }\n"
                              "    fn call(&self, %s: &str, %s: &Value) -> (r: Result<(), PasetoClaimError>)\n%s\n}\n" % (name, name, verdict, a1, a2, body),
                               {"file": self.rel, "impl": "impl ValidatorFn for " + name, "fn": "call", "src_line": it.line, "part": "ensures" if lab else "body", "label": lab}))
            self.ctx.fn_index.append({"file": self.rel, "impl": "impl ValidatorFn for " + name, "fn": "call", "line": it.line, "external_body": False, "stubbed": False,
                                      "body_hash": hashlib.sha1(re.sub(r"\s+", " ", body).encode()).hexdigest()[:16], "hints_dropped": [], "body_text": re.sub(r"\s+", " ", body)[:6000],
                                      "contract": True, "safety": spec.safety if spec else [], "labels": [lab] if lab else [],
                                      "callees": sorted(set(re.findall(r"\b([A-Za-z_]\w*)\s*(?:::\s*<[^<>()]*>)?\s*\(", re.sub(r'"(?:[^"\\]|\\.)*"', '""', body))) - {"if", "while", "for", "match", "return", "Some", "Ok", "Err", "None", "loop", "in", "let", "as"}),
                                      "loops": len(re.findall(r"\b(?:for|while|loop)\b", re.sub(r'"(?:[^"\\]|\\.)*"', '""', body))), "closure_calls": 0, "sig_norm": "",
                                      "ens_labels": [lab] if lab else [], "ens_texts": [(lab, verdict)] if lab else []})
            self.ctx.log("R-lift", self.rel, it.line, b[m.start():m.start() + 60], "&" + name)
            b = b[:m.start()] + "&" + name + b[cb + 1:]
            n += 1
        return b

    def disp_spec(self, parent, body):
        """R-display: write!(f, "{}", self.F) -> DispSpec impl delegating to F"""
        m = re.search(r'write!\(\w+,\s*"\{\}",\s*&?(self\.\w+)\)', body or "") or re.search(r'\b\w+\.write_str\(\s*&?(self\.\w+)\s*\)', body or "")
        if not m:
            if re.search(r'write!\(\w+,\s*"[^{}"]*"\)', body or ""): return  # constant text (Debug for Key)
            # a Display body of another shape: its text is unknown to the verifier (uninterpreted), whatever rested on it fails honestly
            h = re.sub(r"\s+", " ", R.text(parent.header)).strip()
            mm = re.match(r"impl\s*(<.*?>)?\s*(?:fmt::|std::fmt::)?Display for (.+?)(\s+where .*)?$", h)
            if mm:
                c = "impl%s DispSpec for %s %s { uninterp spec fn disp_spec(&self) -> Seq<char>; }\n" % (mm.group(1) or "", mm.group(2), mm.group(3) or "")
                self.ctx.log("R-display", self.rel, parent.line, h, "(body shape not recognised: uninterpreted text) " + c); self.extra.append(c)
            return
        h = re.sub(r"\s+", " ", R.text(parent.header)).strip()
        mm = re.match(r"impl\s*(<.*?>)?\s*(?:fmt::|std::fmt::)?Display for (.+?)(\s+where .*)?$", h)
        g = mm.group(1) or ""; ty = mm.group(2); wh = mm.group(3) or ""
        c = "impl%s DispSpec for %s %s { open spec fn disp_spec(&self) -> Seq<char> { (%s).disp_spec() } }\n" % (g, ty, wh, m.group(1))
        self.ctx.log("R-display", self.rel, parent.line, h, c)
        self.extra.append(c)

    def hint(self, text, hid):
        """ghost hint text with every line tagged, so that a front-end error inside a hint can be told from one in the code"""
        return "\n".join((l + " /*@H:%s*/" % hid) if l.strip() else l for l in text.split("\n"))

    def hint_dropped(self, hid):
        if (self.cur_key, hid) in getattr(self.ctx, "drop_hints", ()):
            self.dropped_hints.append("%s (no longer fits the changed code)" % hid); return True
        return False

    def weave_body(self, b, spec, it):
        self.dropped_hints = []
        if not spec: return b
        ctx = self.ctx
        # b starts with '{' ends with '}'
        inner = b[1:-1]
        if spec.loops or spec.loopbody or spec.loopend:
            inner = self.weave_loops(inner, spec)
        for rx, t in spec.after:
            stmts = self.stmt_ends(inner)
            hit = None; start = 0
            for e in stmts:
                if re.search(rx, inner[start:e]): hit = e; break
                start = e
            if hit is None:
                self.dropped_hints.append("@after %s" % rx); continue
            hid = "after#%d" % spec.after.index((rx, t))
            if self.hint_dropped(hid): continue
            inner = inner[:hit] + "\n" + self.hint(t, hid) + "\n" + inner[hit:]
        for rx, t in spec.before:
            stmts = self.stmt_ends(inner)
            hit = None; start = 0
            for e in stmts:
                if re.search(rx, inner[start:e]): hit = start; break
                start = e
            if hit is None:
                self.dropped_hints.append("@before %s" % rx); continue
            hid = "before#%d" % spec.before.index((rx, t))
            if self.hint_dropped(hid): continue
            inner = inner[:hit] + "\n" + self.hint(t, hid) + "\n" + inner[hit:]
        if spec.entry and not self.hint_dropped("entry"):
            inner = "\n" + self.hint("\n".join(spec.entry), "entry") + "\n" + inner
        if spec.tail and not self.hint_dropped("tail"):
            stmts = self.stmt_ends(inner)
            pos = stmts[-1] if stmts else 0
            inner = inner[:pos] + "\n" + self.hint("\n".join(spec.tail), "tail") + "\n" + inner[pos:]
        return "{" + inner + "}"

    def stmt_ends(self, inner):
        """positions just after each top-level `;` (or block-statement `}`) in a block's inner text"""
        ends = []; j = 0; n = len(inner); depth = 0
        while j < n:
            c = inner[j]
            if c == '"':
                j += 1
                while inner[j] != '"':
                    if inner[j] == "\\": j += 1
                    j += 1
            elif c in "([{":
                k = find_matching(inner, j)
                if c == "{":
                    # block statement end if followed by newline/non-operator and preceded by statement keyword context
                    rest = inner[k + 1:].lstrip()
                    pre = inner[(ends[-1] if ends else 0):j]
                    if re.match(r"\s*(if|for|while|loop|match|unsafe|proof)\b", pre) and not rest.startswith((".", ";", "?", ")", ",", "else")):
                        if rest and not rest.startswith("}"):
                            ends.append(k + 1)
                j = k
            elif c == ";":
                ends.append(j + 1)
            j += 1
        return ends

    def weave_loops(self, inner, spec):
        # find loops `for ... {` / `while ... {` in order of appearance (any depth)
        out = inner; ordn = 0; pos = 0
        for m in list(re.finditer(r"\b(for|while|loop)\b", inner)):
            pass
        res = ""; i = 0; ordn = 0
        while True:
            m = re.search(r"\b(for\s+[^;{]*?\bin\b|while\b|loop\b)", out[i:])
            if not m: break
            st = i + m.start()
            # find body '{' at depth 0 from st
            j = st
            while True:
                c = out[j]
                if c in "([": j = find_matching(out, j)
                elif c == "{": break
                j += 1
            if ordn in spec.loops and not self.hint_dropped("loop#%d" % ordn):
                ins = "\n" + self.hint(spec.loops[ordn], "loop#%d" % ordn) + "\n"
                out = out[:j] + ins + out[j:]
                j += len(ins)
            if ordn in spec.loopend and not self.hint_dropped("loopend#%d" % ordn):
                k = find_matching(out, j)
                out = out[:k] + "\n" + self.hint(spec.loopend[ordn], "loopend#%d" % ordn) + "\n" + out[k:]
            if ordn in spec.loopbody and not self.hint_dropped("loopbody#%d" % ordn):
                out = out[:j + 1] + "\n" + self.hint(spec.loopbody[ordn], "loopbody#%d" % ordn) + "\n" + out[j + 1:]
            ordn += 1
            i = j + 1
        for k in list(spec.loops) + list(spec.loopbody) + list(spec.loopend):
            if k >= ordn:
                self.dropped_hints.append("@loop %d" % k)
        return out

# --------------------------------------------------------------------------------------------
# module tree
# --------------------------------------------------------------------------------------------
def load_items(rel):
    p = os.path.join(REPO_SRC, rel)
    s = open(p).read()
    toks = R.lex(s)
    ncom = sum(1 for t in toks if t.kind == "comment")
    return R.parse_items(R.strip_comments(toks)), ncom

BROADCAST_USE = ("broadcast use {crate::glue::group_glue, crate::cryptospec::group_crypto, crate::base64::group_b64, "
                 "crate::generic_array::ax_ga_len, crate::rp_axioms::group_rp, crate::pspec::group_pspec};\n")

def emit_module(ctx, out, rel, modname, include, stubset, depth=0):
    """Emit `pub mod modname { ... }` for source file rel (relative to src/)."""
    items, ncom = load_items(rel)
    ctx.dropped["comments"] += ncom
    ctx.files.append(rel)
    d = os.path.dirname(rel)
    base = os.path.basename(rel)
    moddir = d if base in ("mod.rs", "lib.rs") else os.path.join(d, base[:-3])
    ind = ""
    if modname is not None:
        name = "rp_core" if (modname == "core" and depth == 1) else modname
        out.add("pub mod %s {\n" % name)
    out.add("#[allow(unused_imports)] use vstd::prelude::*;\n#[allow(unused_imports)] use crate::shim_prelude::*;\n#[allow(unused_imports)] use crate::rp_axioms::*;\n#[allow(unused_imports)] use crate::rp_spec::*;\n#[allow(unused_imports)] use crate::serde::Serialize as _; use crate::serde::JsonSpec as _;\n#[allow(unused_imports)] use crate::erased_serde::Serialize as _;\n")
    excluded = set()
    for it in items:
        if it.kind == "mod_decl":
            if any(TEST_ATTR.match(R.text(a)) for a in it.attrs):
                ctx.dropped["test_items"] += 1; continue
            cand = [os.path.join(moddir, it.name + ".rs"), os.path.join(moddir, it.name, "mod.rs")]
            sub = next((c for c in cand if os.path.exists(os.path.join(REPO_SRC, c))), None)
            if sub is None: raise ExtractError("module file for %s not found (from %s)" % (it.name, rel))
            if not include(sub):
                excluded.add(it.name); ctx.excluded.append(sub); continue
            emit_module(ctx, out, sub, it.name, include, stubset, depth + 1)
    em = FileEmitter(ctx, rel, out, stub=(rel in stubset))
    out.add("verus!{\n" + (BROADCAST_USE if rel.startswith("generic/claims/") or rel.startswith("core/") else BROADCAST_USE.replace("crate::rp_axioms::group_rp,", "crate::rp_axioms::group_rp, crate::rp_axioms::group_rp_json,")))
    rest = []
    for it in items:
        if it.kind == "mod_decl": continue
        if it.kind == "use" and excluded:
            t = R.text(it.toks)
            if any(re.search(r"\b%s::" % re.escape(x), t) for x in excluded): continue
        rest.append(it)
    em.emit_items(rest)
    for t in em.extra:
        if isinstance(t, tuple): out.add(t[0], t[1])
        else: out.add(t)
    for t in ctx.specs.items.get(rel, []):
        out.add(t + "\n", {"file": rel, "part": "spec_items"})
    out.add("} // verus!\n")
    if modname is not None:
        out.add("} // mod %s\n" % modname)

def build(include=None, stubset=(), spec_paths=None, shim_paths=None, out_path=None, stub_fns=(), drop_uses=(), drop_contract_fns=(), ext_consts=(), renames=None, inline_fns=(), baseline_params=None, drop_hints=()):
    specs = Specs()
    for p in (spec_paths or []):
        parse_vspec(p, specs)
    ctx = Ctx(specs)
    ctx_theorems = []
    ctx.theorems = ctx_theorems
    ctx.files = []; ctx.excluded = []
    ctx.stub_fns = set(stub_fns); ctx.drop_uses = set(drop_uses); ctx.drop_contract_fns = set(drop_contract_fns); ctx.ext_consts = set(ext_consts); ctx.renames = dict(renames or {}); ctx.baseline_params = baseline_params or {}; ctx.drop_hints = set(drop_hints); ctx.inline_defs = collect_inline_defs(set(inline_fns)) if inline_fns else {}
    ctx.used_companions = set(); ctx.used_implitems = set(); ctx.lost_contracts = []
    out = Out()
    out.add("#![feature(allocator_api)]\n#![feature(sized_hierarchy)]\n#![allow(unused)]\n#![allow(unused_imports, dead_code, non_camel_case_types, unused_parens, unused_braces)]\nuse vstd::prelude::*;\n")
    for p in (shim_paths or []):
        out.add("// ==== shim %s\n" % os.path.basename(p))
        txt = open(p).read() + "\n"
        # proof functions introduced by `// OBL: <label>` are named obligations (theorems over the spec functions)
        pieces = re.split(r"(?m)^(?=// OBL: )", txt)
        for pc in pieces:
            m = re.match(r"// OBL: (\S+)", pc)
            if m:
                fm = re.search(r"proof fn (\w+)", pc)
                ctx_theorems.append({"label": m.group(1), "fn": fm.group(1) if fm else "?", "file": os.path.basename(p), "text": " ".join(pc.split())[:500]})
                out.add(pc, {"file": "specs:" + os.path.basename(p), "part": "theorem", "label": m.group(1)})
            else:
                out.add(pc, {"file": "shim:" + os.path.basename(p), "part": "shim"})
    for t in specs.prelude:
        out.add(t + "\n")
    inc = include or (lambda rel: True)
    emit_module(ctx, out, "lib.rs", None, inc, set(stubset))
    names = []
    for t in specs.axioms:
        names += re.findall(r"broadcast\s+(?:axiom|proof)\s+fn\s+(\w+)", t)
    extra_use = ""
    if "generic/mod.rs" in ctx.files: extra_use += "#[allow(unused_imports)] use crate::generic::*;\n"
    if "prelude/mod.rs" in ctx.files: extra_use += "#[allow(unused_imports)] use crate::prelude::*;\n"
    out.add("pub mod rp_axioms {\nuse vstd::prelude::*;\nuse crate::serde::Serialize as _; use crate::serde::JsonSpec as _;\nuse crate::erased_serde::Serialize as _;\nuse crate::shim_prelude::*;\nuse crate::rp_core::*;\nuse crate::rp_core::common::*;\n" + extra_use + "#[allow(unused_imports)] use std::array::TryFromSliceError;\nverus!{\n")
    for t in specs.axioms:
        out.add(t + "\n", {"file": "contracts", "part": "axioms"})
    for (rel, en, v, t, ctor) in ctx.gen_axioms:
        mp = "crate::" + "::".join(("rp_core" if (i == 0 and x == "core") else x) for i, x in enumerate(rel[:-3].split("/")))
        nm = "ax_from_%s_%s" % (en, v)
        names.append(nm)
        out.add("// `?` conversion (FromResidual -> From::from) for the synthesised #[from] impl (D-4)\n"
                "pub broadcast axiom fn %s(e: %s, ret: %s::%s) requires #[trigger] vstd::std_specs::control_flow::spec_from::<%s::%s, %s>(e, ret) ensures ret == (%s::%s::%s%s);\n"
                % (nm, t, mp, en, mp, en, t, mp, en, v, ctor), {"file": rel, "part": "gen_axiom"})
    jnames = []
    for t in specs.axioms_json:
        jnames += re.findall(r"broadcast\s+(?:axiom|proof)\s+fn\s+(\w+)", t)
        out.add(t + "\n", {"file": "contracts", "part": "axioms"})
    out.add("pub broadcast group group_rp { %s }\npub broadcast group group_rp_json { %s }\n}\n}\n" % (", ".join(names), ", ".join(jnames)))
    out.add("pub mod rp_spec {\nuse vstd::prelude::*;\nuse crate::serde::Serialize as _; use crate::serde::JsonSpec as _;\nuse crate::erased_serde::Serialize as _;\nuse crate::shim_prelude::*;\nuse crate::rp_axioms::*;\nuse crate::rp_core::*;\nuse crate::rp_core::common::*;\n" + extra_use + "verus!{\n")
    for t in specs.specdefs:
        # `// OBL: <label>` proof fns inside @specs are named obligations too (theorems over the contract-level spec functions)
        for pc in re.split(r"(?m)^(?=// OBL: )", t + "\n"):
            m = re.match(r"// OBL: (\S+)", pc)
            if m:
                fm = re.search(r"proof fn (\w+)", pc)
                ctx_theorems.append({"label": m.group(1), "fn": fm.group(1) if fm else "?", "file": "contracts", "text": " ".join(pc.split())[:500]})
                out.add(pc, {"file": "specs:contracts", "part": "theorem", "label": m.group(1)})
            else:
                out.add(pc, {"file": "contracts", "part": "specs"})
    out.add("}\n}\n")
    # canary (DESIGN 1.7): with every assumed axiom in scope, `false` must NOT be provable
    out.add("pub mod rp_canary {\nuse vstd::prelude::*;\nuse crate::shim_prelude::*;\nverus!{\n" + BROADCAST_USE +
            "proof fn rp_canary_must_fail() ensures false {}\n}\n}\n", {"file": "canary", "part": "canary"})
    out.add("fn main() {}\n")
    for k, fs in specs.fns.items():
        if not fs.used and inc(k[0]):
            # the function a contract was written for no longer exists (removed, renamed or inlined): its obligations are gone with it;
            # whoever did its work is checked against the contracts of the callers.  Reported by the runner, never silently.
            labs = sorted(set([l for l, _ in fs.requires + fs.ensures if l] + ["safety=" + p for p in fs.safety]))
            ctx.lost_contracts.append({"fn": "%s|%s::%s" % k, "contract": "%s:%d" % (os.path.basename(fs.src), fs.line), "labels": labs})
    text, lines_meta = out.render()
    if out_path:
        os.makedirs(os.path.dirname(out_path), exist_ok=True)
        open(out_path, "w").write(text)
        json.dump({"lines": lines_meta, "rewrites": ctx.rewrites, "dropped": ctx.dropped, "fns": ctx.fn_index,
                   "files": ctx.files, "excluded": ctx.excluded, "lost_contracts": ctx.lost_contracts}, open(out_path + ".map.json", "w"), indent=0)
    return text, lines_meta, ctx

if __name__ == "__main__":
    import argparse, glob
    ap = argparse.ArgumentParser()
    ap.add_argument("--out", default=os.path.join(VERIF, "build", "all.rs"))
    ap.add_argument("--list-fns", action="store_true")
    ap.add_argument("--only", default=None, help="regex of source files to include")
    ap.add_argument("--exclude", default=None, help="regex of source files to exclude")
    a = ap.parse_args()
    specs = sorted(glob.glob(os.path.join(VERIF, "contracts", "*.vspec")))
    shims = sorted(glob.glob(os.path.join(VERIF, "shims", "*.rs"))) + sorted(glob.glob(os.path.join(VERIF, "specs", "*.rs")))
    inc = None
    if a.only:
        rx = re.compile(a.only); inc = lambda rel: bool(rx.search(rel)) or rel.endswith("mod.rs")
    if a.exclude:
        rx = re.compile(a.exclude); inc = lambda rel: not rx.search(rel)
    try:
        text, lm, ctx = build(inc, (), specs, shims, a.out)
    except ExtractError as e:
        print("EXTRACT-ERROR:", e); sys.exit(2)
    if a.list_fns:
        for f in ctx.fn_index:
            print("%s | %s :: %s%s" % (f["file"], f["impl"], f["fn"], "  [contract]" if f["contract"] else ""))
    print("wrote", a.out, "files:", len(ctx.files), "fns:", len(ctx.fn_index), "rewrites:", len(ctx.rewrites))
