#!/usr/bin/env python3
"""False-alarm self-test: run every behaviour-preserving change (harmless/<id>/patch.diff) through ALL claimed checks on a
scratch copy of /repo; never touches /repo.  Expected outcome for every property: OK (exit 0).  UNDECIDED (exit 2) is tolerated
but listed; VIOLATION is a false alarm that must be fixed in the machinery.  Writes harmless_report.json.  Not part of any check."""
import os, sys, json, subprocess, tempfile, shutil, re, hashlib
VERIF = os.path.dirname(os.path.dirname(os.path.abspath(__file__)))
REAL_VERIF = VERIF
def snapshot():
    """SNAPSHOT: run against a frozen copy of the machinery so that editing /verif while a long self-test runs cannot disturb it"""
    global VERIF
    snap = tempfile.mkdtemp(prefix="verif_snap_")
    subprocess.run(["rsync", "-a", "--exclude", "build", "--exclude", ".git", "--exclude", "seeded", "--exclude", "harmless", "--exclude", "evidence", "--exclude", "replays", REAL_VERIF + "/", snap + "/"], check=True)
    VERIF = snap
    return snap
def run_one(hid, replay, base="harmless"):
    d = os.path.join(REAL_VERIF, base, hid)
    tmp = tempfile.mkdtemp(prefix="hl_")
    try:
        for f in ("src", "Cargo.toml", "Cargo.lock"):
            s = os.path.join("/repo", f)
            (shutil.copytree if os.path.isdir(s) else shutil.copy)(s, os.path.join(tmp, f))
        p = subprocess.run(["patch", "-s", "-p1", "-i", os.path.join(d, "patch.diff")], cwd=tmp, capture_output=True, text=True)
        if p.returncode: return {"id": hid, "outcome": "patch-failed", "detail": (p.stdout + p.stderr)[-300:]}
        cmd = [sys.executable, os.path.join(VERIF, "tools", "runner.py"), "all", "--src", os.path.join(tmp, "src"), "--no-evidence", "--out", os.path.join(tmp, "build")]
        if not replay: cmd.append("--no-replay")
        r = subprocess.run(cmd, capture_output=True, text=True)
        per = {}
        for l in r.stdout.split("\n"):
            m = re.match(r"^(VIOLATION|UNDECIDED-OBLIGATION|UNDECIDED)\b.*?property=(C\d\d)", l)
            if m:
                k = "UNDECIDED"
                if m.group(1) == "VIOLATION": k = "VIOLATION(no-input)" if "no-failing-input-found" in l else "VIOLATION"
                if not per.get(m.group(2), "").startswith("VIOLATION"): per[m.group(2)] = k
        lines = [l[:260] for l in r.stdout.split("\n") if re.match(r"^(VIOLATION|UNDECIDED|FAILED-OBLIGATION|UNDECIDED-OBLIGATION|OUT-OF-REACH|WITNESS)", l)]
        worst = "VIOLATION" if any(v.startswith("VIOLATION") for v in per.values()) else ("UNDECIDED" if ("UNDECIDED" in per.values() or r.returncode == 2) else ("OK" if r.returncode == 0 else "rc=%d" % r.returncode))
        return {"id": hid, "outcome": worst, "rc": r.returncode, "per_property": per, "lines": lines[:12]}
    finally:
        h = hashlib.md5((tmp + "\n").encode()).hexdigest()[:10]
        shutil.rmtree(os.path.join(VERIF, "build", "replay", h), ignore_errors=True)
        shutil.rmtree(os.path.join(VERIF, "build", "kani_" + hashlib.md5(os.path.join(tmp, "src").encode()).hexdigest()[:10]), ignore_errors=True)
        shutil.rmtree(tmp, ignore_errors=True)
if __name__ == "__main__":
    replay = "--replay" in sys.argv
    snap = None if "--live" in sys.argv else snapshot()
    base = "seeded" if "--seeded" in sys.argv else "harmless"   # --seeded: cross-property matrix of the seeded (property-breaking) changes
    ids = [a for a in sys.argv[1:] if not a.startswith("--")] or sorted(x for x in os.listdir(os.path.join(REAL_VERIF, base)) if x != "obsolete")
    from concurrent.futures import ThreadPoolExecutor
    with ThreadPoolExecutor(max_workers=int(os.environ.get("WORKERS", "3"))) as ex:
        res = list(ex.map(lambda s: run_one(s, replay, base), ids))
    for r in res:
        bad = {k: v for k, v in (r.get("per_property") or {}).items() if v != "OK"}
        print("%-8s %-10s %s %s" % (r["id"], r["outcome"], bad or "", (r.get("lines") or [""])[0][:140]))
    if len(ids) > 5:
        json.dump({"results": res}, open(os.path.join(REAL_VERIF, "crosscheck_report.json" if base == "seeded" else "harmless_report.json"), "w"), indent=1)
    c = {}
    for r in res: c[r["outcome"]] = c.get(r["outcome"], 0) + 1
    print(c)
    if snap: shutil.rmtree(snap, ignore_errors=True)
