#!/usr/bin/env python3
"""Print the summary of harmless_report.json and write it into DESIGN.md (the line starting `Result of the last full run`)."""
import json, os, re, sys
V = os.path.dirname(os.path.dirname(os.path.abspath(__file__)))
files = sys.argv[1:] or [os.path.join(V, "harmless_report.json")]
res = {}
for f in files:
    for r in json.load(open(f))["results"]: res[r["id"]] = r
c = {}
for r in res.values(): c[r["outcome"]] = c.get(r["outcome"], 0) + 1
viol = sorted(i for i, r in res.items() if r["outcome"] == "VIOLATION")
und = sorted(i for i, r in res.items() if r["outcome"] == "UNDECIDED")
line = "Result of the last full run (%d patches x 18 checks, `harmless_report.json`): %d OK, %d undecided (exit 2, reasons listed in the report), %d `VIOLATION`%s." % (
    len(res), c.get("OK", 0), c.get("UNDECIDED", 0), c.get("VIOLATION", 0), (" (" + ", ".join(viol) + ")") if viol else "")
print(line); print("undecided:", " ".join(und))
p = os.path.join(V, "DESIGN.md"); s = open(p).read()
if "Result of the last full run" in s: s = re.sub(r"Result of the last full run[^\n]*", line, s)
open(p, "w").write(s)
