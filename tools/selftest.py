#!/usr/bin/env python3
"""Run every seeded change (seeded/<id>/patch.diff) through the check of its property on a scratch copy of /repo; never touches /repo.
Writes selftest_report.json.  Not part of any check's exit code."""
import os, sys, json, subprocess, tempfile, shutil, glob, re
VERIF = os.path.dirname(os.path.dirname(os.path.abspath(__file__)))
REAL_VERIF = VERIF
def snapshot():
    """SNAPSHOT: run against a frozen copy of the machinery so that editing /verif while a long self-test runs cannot disturb it"""
    global VERIF
    snap = tempfile.mkdtemp(prefix="verif_snap_")
    subprocess.run(["rsync", "-a", "--exclude", "build", "--exclude", ".git", "--exclude", "seeded", "--exclude", "harmless", "--exclude", "evidence", "--exclude", "replays", REAL_VERIF + "/", snap + "/"], check=True)
    VERIF = snap
    return snap
FMT = ""
def run_one(sid, replay):
    d = os.path.join(REAL_VERIF, "seeded", sid)
    meta = json.load(open(os.path.join(d, "meta.json")))
    pid = meta.get("property", sid.split("-")[0])
    tmp = tempfile.mkdtemp(prefix="st_")
    try:
        for f in ("src", "Cargo.toml", "Cargo.lock"):
            s = os.path.join("/repo", f)
            (shutil.copytree if os.path.isdir(s) else shutil.copy)(s, os.path.join(tmp, f))
        p = subprocess.run(["patch", "-s", "-p1", "-i", os.path.join(d, "patch.diff")], cwd=tmp, capture_output=True, text=True)
        if p.returncode: return {"id": sid, "property": pid, "outcome": "patch-failed", "detail": p.stderr[-300:]}
        if FMT:
            # --fmt: reformat the patched tree with other rustfmt settings first (a change may arrive together with a reformat)
            open(os.path.join(tmp, "rustfmt.toml"), "w").write(FMT)
            fs = [os.path.join(dp, f) for dp, _, fl in os.walk(os.path.join(tmp, "src")) for f in fl if f.endswith(".rs")]
            subprocess.run(["rustfmt", "--edition", "2021", "--config-path", os.path.join(tmp, "rustfmt.toml")] + fs, capture_output=True, text=True)
        cmd = [sys.executable, os.path.join(VERIF, "tools", "runner.py"), pid, "--src", os.path.join(tmp, "src"), "--no-evidence", "--out", os.path.join(tmp, "build")]
        if not replay: cmd.append("--no-replay")
        r = subprocess.run(cmd, capture_output=True, text=True)
        lines = [l for l in r.stdout.split("\n") if re.match(r"^(OK|VIOLATION|UNDECIDED|FAILED-OBLIGATION|OUT-OF-REACH|WITNESS|KNOWN)", l)]
        outcome = "VIOLATION" if r.returncode == 1 else ("OK(missed)" if r.returncode == 0 else "UNDECIDED")
        wit = any(l.startswith("WITNESS") for l in lines)
        return {"id": sid, "property": pid, "outcome": outcome, "witness": wit, "rc": r.returncode, "lines": [l[:300] for l in lines[:8]], "summary": meta.get("summary", "")[:200]}
    finally:
        import hashlib
        h = hashlib.md5((tmp + "\n").encode()).hexdigest()[:10]
        shutil.rmtree(os.path.join(VERIF, "build", "replay", h), ignore_errors=True)
        shutil.rmtree(os.path.join(VERIF, "build", "kani_" + hashlib.md5(os.path.join(tmp, "src").encode()).hexdigest()[:10]), ignore_errors=True)
        shutil.rmtree(tmp, ignore_errors=True)
if __name__ == "__main__":
    replay = "--replay" in sys.argv
    if "--fmt" in sys.argv: FMT = "max_width = 80\ntab_spaces = 2\n"
    if "--fmt2" in sys.argv: FMT = "max_width = 60\nhard_tabs = true\nuse_small_heuristics = \"Off\"\n"
    snap = None if "--live" in sys.argv else snapshot()
    ids = [a for a in sys.argv[1:] if not a.startswith("--")] or sorted(x for x in os.listdir(os.path.join(REAL_VERIF, "seeded")) if x != "obsolete")
    from concurrent.futures import ThreadPoolExecutor
    with ThreadPoolExecutor(max_workers=int(os.environ.get("WORKERS", "3"))) as ex:
        res = list(ex.map(lambda s: run_one(s, replay), ids))
    for r in res:
        print("%-8s %-4s %-12s %s" % (r["id"], r["property"], r["outcome"] + ("+witness" if r.get("witness") else ""), (r.get("lines") or [""])[0][:150]))
    if len(ids) > 5 and not FMT:
        json.dump({"results": res}, open(os.path.join(REAL_VERIF, "selftest_report.json"), "w"), indent=1)
    c = {}
    for r in res: c[r["outcome"]] = c.get(r["outcome"], 0) + 1
    print(c)
    if snap: shutil.rmtree(snap, ignore_errors=True)
