#!/bin/bash
# usage: try_patch.sh <patch.diff> <PROP> [<PROP>...]  -- run checks against a scratch copy of /repo/src with the patch applied
P=$(readlink -f $1); shift
D=$(mktemp -d /tmp/tp.XXXX); cp -r /repo/src $D/src
( cd $D && patch -s -p1 < $P ) || { echo "patch failed"; rm -rf $D; exit 2; }
for pr in "$@"; do
  python3 /verif/tools/runner.py $pr --src $D/src --no-evidence --no-replay --out $D/build 2>&1 | grep -E '^(OK|VIOLATION|UNDECIDED|FAILED-OBLIGATION|KNOWN)' | head -8
done
rm -rf $D
