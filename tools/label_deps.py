#!/usr/bin/env python3
"""Proof-dependency analysis of the contracts (DESIGN 1.4): for every labelled ensures clause C, replace C by `true` in the generated unit
and see which obligations of OTHER functions stop verifying.  Those obligations rest on C (a caller is checked against the callee's contract),
so a refutation of C concerns every property they name.  The transitive closure is written to label_deps.json:
    { "<fn key>#<label>": {"dependents": [obligation names], "props": [property ids incl. the label's own]} }
The runner adds these properties to the direct attribution of a failed clause.  Regenerate after contracts change (about 25 min, 3 workers)."""
import os, sys, json, re, hashlib, glob, tempfile, shutil
sys.path.insert(0, os.path.dirname(os.path.abspath(__file__)))
import runner
VERIF = runner.VERIF

def contracts_hash():
    h = hashlib.sha1()
    for p in sorted(glob.glob(os.path.join(VERIF, "contracts", "*.vspec")) + glob.glob(os.path.join(VERIF, "shims", "*.rs")) + glob.glob(os.path.join(VERIF, "specs", "*.rs"))):
        h.update(open(p, "rb").read())
    return h.hexdigest()[:16]

def main():
    only = [a for a in sys.argv[1:] if not a.startswith("--")]
    if "--closure-only" in sys.argv: only = ["\x00no-such-label\x00"]      # recompute closures from the recorded direct dependents
    work = tempfile.mkdtemp(prefix="ldeps_")
    unit = os.path.join(work, "all.rs")
    text, lines_meta, ctx = runner.build_unit("/repo/src", unit)
    lmap = runner.LineMap(lines_meta)
    fns_by_key = {"%s|%s::%s" % (f["file"], f["impl"], f["fn"]): f for f in ctx.fn_index}
    lines = text.split("\n")
    clauses = []
    for a, b, m in lines_meta:
        if m.get("part") == "ensures" and m.get("label") and m.get("fn"):
            key = "%s|%s::%s" % (m["file"], m.get("impl", "-"), m["fn"])
            clauses.append((key, m["label"], a, b))
    all_keys = set("%s#%s" % (c[0], c[1]) for c in clauses)
    if only: clauses = [c for c in clauses if any(o in c[1] for o in only)]
    print("clauses:", len(clauses), file=sys.stderr)
    # a clause of g is visible only at the call sites of g: verify just the modules that contain (name-based) callers of g
    edges = runner.call_edges(fns_by_key)
    callers = {}
    for k, outs in edges.items():
        for g in outs: callers.setdefault(g, set()).add(k)
    def module_of(fkey):
        rel = fkey.split("|")[0][:-3]
        parts = rel.split("/")
        if parts[-1] in ("mod", "lib"): parts = parts[:-1]
        if parts and parts[0] == "core": parts[0] = "rp_core"
        return "::".join(parts)
    def one(c):
        key, label, a, b = c
        mods = sorted(set(module_of(k) for k in callers.get(key, ()) if module_of(k)))
        f = fns_by_key.get(key, {})
        implicit = (f.get("fn") in runner.AMBIGUOUS) or (" for " in f.get("impl", "")) or f.get("impl", "").startswith("pub trait") or f.get("impl", "").startswith("pub(crate)trait")
        extra = []
        if not implicit:
            # inherent method / free function: only explicit call sites can see the clause
            if not callers.get(key): return (key, label, [])
            for m in mods: extra += ["--verify-module", m]
            if any(module_of(k) == "" for k in callers.get(key, ())): extra = []   # a caller in the crate root: verify everything
        # trait-impl methods (Deref, AsRef, From, PartialEq, Add, Default, ...) are called implicitly: verify everything
        ls = list(lines)
        # lines are 1-based in the metadata
        ls[a - 1] = re.match(r"\s*", ls[a - 1]).group(0) + "true,"
        for i in range(a, b): ls[i] = ""
        p = os.path.join(work, "u_%s.rs" % hashlib.md5((key + label).encode()).hexdigest()[:10])
        open(p, "w").write("\n".join(ls))
        r = runner.run_verus(p, extra=extra)
        os.remove(p)
        if r["json"] is None and not r["diags"]: return (key, label, None)
        fails, frontend, canary = runner.classify(r, lmap, fns_by_key)
        if frontend: return (key, label, None)
        deps = sorted(set(f["obligation"] for f in fails if not (f["fn"] == key and f["label"] == label)))
        return (key, label, deps)
    from concurrent.futures import ThreadPoolExecutor
    out = {}
    with ThreadPoolExecutor(max_workers=3) as ex:
        for n, (key, label, deps) in enumerate(ex.map(one, clauses)):
            out["%s#%s" % (key, label)] = {"dependents": deps}
            if n % 20 == 0: print(n, key[-60:], label, (len(deps) if deps is not None else "ERR"), file=sys.stderr)
    path = os.path.join(VERIF, "label_deps.json")
    prev = json.load(open(path)) if os.path.exists(path) else {}
    if only and prev:
        oc = {k: {"dependents": v.get("dependents")} for k, v in prev.get("clauses", {}).items() if k in all_keys}; oc.update(out); out = oc   # stale (relabelled) clauses go
    # closure over labelled dependents (always over the whole table)
    by_label = {}
    for k in out: by_label.setdefault(k.split("#", 1)[1], []).append(k)
    def props_of(name):
        m = re.match(r"^((?:C\d\d\+?)+)\.", name)
        if m: return set(m.group(1).split("+"))
        if name.startswith("core."): return set(runner.SHARED)
        # body-level obligation of a function: its safety tags
        fk = name.split(".body.")[0]
        return set(fns_by_key.get(fk, {}).get("safety", []))
    by_fn = {}
    for k in out: by_fn.setdefault(k.split("#", 1)[0], []).append(k)
    def expand(o):
        """obligations that become unproven when obligation o is unproven: for a labelled clause its recorded dependents; for a body-level
        failure of function f (a loop invariant, an assertion, a callee precondition) every clause of f - its body proof is what carries them"""
        res = []
        for kk in by_label.get(o, []): res += (out[kk]["dependents"] or [])
        if ".body." in o:
            fk = o.split(".body.")[0]
            for kk in by_fn.get(fk, []): res.append(kk.split("#", 1)[1]); res += (out[kk]["dependents"] or [])
        return res
    for k, v in out.items():
        seen = set(); todo = list(v["dependents"] or []); props = props_of(k.split("#", 1)[1])
        while todo:
            o = todo.pop()
            if o in seen: continue
            seen.add(o); props |= props_of(o)
            todo += expand(o)
        v["closure"] = sorted(seen); v["props"] = sorted(props)
    # ---- phase 2: defining axioms.  A repo function that is verified AGAINST a defining axiom (AsRef::as_ref against ax_asref_*,
    # Serialize::serialize against ax_json_*) has no labelled clause of its own; what rests on it is what rests on the axiom.
    fn_body_props = dict(prev.get("fn_body_props", {})); axioms = dict(prev.get("axioms", {}))
    if not only or "--axioms" in sys.argv:
        spans = []
        for m in re.finditer(r"pub broadcast axiom fn (ax_(?:asref|json|keytype)\w*)", text):
            st = m.start(); e = text.find("ensures", st); semi = text.find(";", e)
            if e < 0 or semi < 0: continue
            spans.append((m.group(1), e, semi))
        print("axioms:", len(spans), file=sys.stderr)
        def one_ax(sp):
            name, e, semi = sp
            body = text[e + len("ensures"):semi]
            # keep the trigger terms (a broadcast axiom without trigger is rejected) but make the statement trivial
            t2 = text[:e] + "ensures true || (" + body.replace(",\n", " &&\n") + ")" + text[semi:]
            p = os.path.join(work, "a_%s.rs" % name)
            open(p, "w").write(t2)
            r = runner.run_verus(p)
            os.remove(p)
            if r["json"] is None and not r["diags"]: return (name, None)
            fails, frontend, canary = runner.classify(r, lmap, fns_by_key)
            if frontend: return (name, None)
            return (name, fails)
        with ThreadPoolExecutor(max_workers=3) as ex:
            for name, fails in ex.map(one_ax, spans):
                if fails is None: axioms[name] = {"definers": None}; continue
                definers = sorted(set(f["fn"] for f in fails if f["fn"] and not f["label"] and fns_by_key.get(f["fn"], {}).get("fn") in ("as_ref", "serialize", "deref", "len")))
                deps = sorted(set(f["obligation"] for f in fails if not (f["fn"] in definers and not f["label"])))
                props = set()
                seen = set(); todo = list(deps)
                while todo:
                    o = todo.pop()
                    if o in seen: continue
                    seen.add(o); props |= props_of(o)
                    todo += expand(o)
                axioms[name] = {"definers": definers, "dependents": deps, "props": sorted(props)}
                for d in definers: fn_body_props[d] = sorted(set(fn_body_props.get(d, [])) | props)
                print(name, definers, sorted(props), file=sys.stderr)
    json.dump({"contracts_hash": contracts_hash(), "clauses": out, "axioms": axioms, "fn_body_props": fn_body_props}, open(path, "w"), indent=0, sort_keys=True)
    shutil.rmtree(work, ignore_errors=True)
    print("wrote", path, len(out))
if __name__ == "__main__":
    main()
