#!/bin/bash
# usage: confirm_round.sh <round> <agent-letter> <id-offset>   -- confirm every /tmp/agent_r<round><letter>/<P>_<i> change in /tmp/wt_r<round><letter>; files as seeded/<P>-<offset+i>
R=$1; a=$2; OFF=$3
for d in /tmp/agent_r${R}$a/C??_?; do
  [ -f $d/patch.diff ] || continue
  b=$(basename $d); P=${b%_*}; i=${b#*_}; sid=$P-$((OFF+i))
  # demo_cmd may copy demo.rs itself; normalise
  python3 - "$d" "$a" <<'PY'
import json,sys,re
d,a=sys.argv[1],sys.argv[2]
m=json.load(open(d+'/meta.json')); c=m['demo_cmd']
c=re.sub(r'cp \S+demo\.rs \S*tests/demo\.rs\s*&&\s*','',c)
m['demo_cmd']=c; json.dump(m,open(d+'/meta.json','w'),indent=1)
PY
  WT=/tmp/wt_r${R}$a SRC=$d /verif/tools/confirm_seed.sh $P $i $sid 2>&1 | grep -E "suite_with|allfeatures|demo_with|CONFIRMED"
done
