"""Minimal Rust lexer + item splitter used by the extractor.

Only what the extractor needs: comments/strings/chars/lifetimes are recognised so that
brace matching and regex rewrites never look inside them.  No attempt is made to parse
expressions.
"""
import re

class Tok:
    __slots__ = ("kind", "text", "line")
    def __init__(self, kind, text, line):
        self.kind = kind; self.text = text; self.line = line
    def __repr__(self):
        return "%s:%r@%d" % (self.kind, self.text, self.line)

_ident = re.compile(r"[A-Za-z_][A-Za-z0-9_]*")
_num = re.compile(r"[0-9][0-9A-Za-z_]*(\.[0-9][0-9A-Za-z_]*)?")
_char = re.compile(r"'(\\x[0-9a-fA-F]{2}|\\u\{[0-9a-fA-F]+\}|\\.|[^\\'\n])'")
_rawstr = re.compile(r'b?r(#*)"')
_puncts = ["<<=", ">>=", "...", "..=", "::", "->", "=>", "==", "!=", "<=", ">=", "&&", "||", "+=", "-=", "*=",
           "/=", "%=", "^=", "&=", "|=", "<<", ">>", ".."]

def lex(s):
    """Return list of Tok; kinds: ws, comment, str, char, lifetime, ident, num, punct."""
    out = []; i = 0; n = len(s); line = 1
    while i < n:
        c = s[i]
        if c.isspace():
            j = i
            while j < n and s[j].isspace():
                j += 1
            out.append(Tok("ws", s[i:j], line)); line += s.count("\n", i, j); i = j; continue
        if s.startswith("//", i):
            j = s.find("\n", i); j = n if j < 0 else j
            out.append(Tok("comment", s[i:j], line)); i = j; continue
        if s.startswith("/*", i):
            d = 1; j = i + 2
            while j < n and d:
                if s.startswith("/*", j): d += 1; j += 2
                elif s.startswith("*/", j): d -= 1; j += 2
                else: j += 1
            out.append(Tok("comment", s[i:j], line)); line += s.count("\n", i, j); i = j; continue
        m = _rawstr.match(s, i)
        if m:
            close = '"' + m.group(1)
            j = s.find(close, m.end())
            j = j + len(close)
            out.append(Tok("str", s[i:j], line)); line += s.count("\n", i, j); i = j; continue
        if c == '"' or (c == 'b' and i + 1 < n and s[i + 1] == '"'):
            j = i + (2 if c == 'b' else 1)
            while s[j] != '"':
                if s[j] == '\\': j += 1
                j += 1
            j += 1
            out.append(Tok("str", s[i:j], line)); line += s.count("\n", i, j); i = j; continue
        if c == "'":
            m = _char.match(s, i)
            if m:
                out.append(Tok("char", m.group(0), line)); i = m.end(); continue
            m = _ident.match(s, i + 1)
            if m:
                out.append(Tok("lifetime", s[i:m.end()], line)); i = m.end(); continue
        m = _ident.match(s, i)
        if m:
            out.append(Tok("ident", m.group(0), line)); i = m.end(); continue
        m = _num.match(s, i)
        if m:
            out.append(Tok("num", m.group(0), line)); i = m.end(); continue
        for p in _puncts:
            if s.startswith(p, i):
                out.append(Tok("punct", p, line)); i += len(p); break
        else:
            out.append(Tok("punct", c, line)); i += 1
    return out

def strip_comments(toks):
    """Drop comments (incl. doc comments); a line comment becomes nothing (the newline ws that follows stays)."""
    return [t for t in toks if t.kind != "comment"]

def text(toks):
    return "".join(t.text for t in toks)

OPEN = {"(": ")", "[": "]", "{": "}"}
CLOSE = {")", "]", "}"}

def match_close(toks, i):
    """toks[i] is an opening bracket; return index of its matching close."""
    stack = []
    j = i
    while j < len(toks):
        t = toks[j]
        if t.kind == "punct":
            if t.text in OPEN: stack.append(OPEN[t.text])
            elif t.text in CLOSE:
                if not stack or stack[-1] != t.text:
                    raise ValueError("unbalanced bracket at line %d" % t.line)
                stack.pop()
                if not stack: return j
        j += 1
    raise ValueError("unclosed bracket from line %d" % toks[i].line)

class Item:
    """One Rust item.  kind in: use, mod_decl, mod, fn, struct, enum, impl, trait, static, const, type,
    inner_attr, macro, other.  toks = all tokens (attrs included)."""
    def __init__(self):
        self.kind = None; self.attrs = []; self.vis = ""; self.toks = []; self.name = None
        self.header = None   # impl/trait/mod: tokens before '{' (without attrs)
        self.children = None # impl/trait/mod: list[Item]
        self.sig = None      # fn: tokens before body '{' or ';' (without attrs)
        self.body = None     # fn: tokens of body including braces, or None
        self.line = 0
    def attr_texts(self):
        return [text(a) for a in self.attrs]

_item_kw = {"use", "mod", "fn", "struct", "enum", "impl", "trait", "static", "const", "type", "macro_rules", "union", "extern"}
_prefix_kw = {"pub", "unsafe", "async", "default", "const", "extern"}

def _skip_ws(toks, i):
    while i < len(toks) and toks[i].kind == "ws":
        i += 1
    return i

def parse_items(toks):
    """Split a token list (module or impl/trait body contents) into Items."""
    items = []; i = 0; n = len(toks)
    while True:
        i = _skip_ws(toks, i)
        if i >= n: break
        it = Item(); start = i; it.line = toks[i].line
        # attributes
        while i < n and toks[i].kind == "punct" and toks[i].text == "#":
            j = i + 1
            inner = False
            if toks[j].kind == "punct" and toks[j].text == "!":
                inner = True; j += 1
            assert toks[j].text == "[", "expected [ after # at line %d" % toks[i].line
            k = match_close(toks, j)
            if inner:
                ia = Item(); ia.kind = "inner_attr"; ia.toks = toks[i:k + 1]; ia.line = toks[i].line
                items.append(ia); i = _skip_ws(toks, k + 1); start = i
                continue
            it.attrs.append(toks[i:k + 1]); i = _skip_ws(toks, k + 1)
        if i >= n:
            break
        after_attrs = i
        # visibility / qualifiers
        kw = None
        j = i
        while j < n:
            t = toks[j]
            if t.kind == "ident" and t.text == "pub":
                j = _skip_ws(toks, j + 1)
                if toks[j].text == "(":
                    j = match_close(toks, j) + 1
                it.vis = text(toks[i:j]).strip()
                j = _skip_ws(toks, j); continue
            if t.kind == "ident" and t.text in ("unsafe", "async", "default"):
                j = _skip_ws(toks, j + 1); continue
            if t.kind == "ident" and t.text == "extern":
                j = _skip_ws(toks, j + 1)
                if toks[j].kind == "str": j = _skip_ws(toks, j + 1)
                continue
            if t.kind == "ident" and t.text == "const":
                k = _skip_ws(toks, j + 1)
                if toks[k].kind == "ident" and toks[k].text in ("fn", "unsafe", "async", "extern"):
                    j = k; continue
                kw = "const"; break
            if t.kind == "ident" and t.text in _item_kw:
                kw = t.text; break
            break
        if kw is None:
            # macro invocation item or something unexpected: take up to ';' or balanced braces
            kw = "other"
        it.kind = kw
        kwpos = j
        # find end
        if kw in ("use", "static", "const", "type", "other"):
            k = kwpos; depth = 0
            while k < n:
                t = toks[k]
                if t.kind == "punct":
                    if t.text in OPEN:
                        k = match_close(toks, k)
                        if kw == "other" and toks[k].text == "}":
                            # macro!{...} item without ';'
                            nk = _skip_ws(toks, k + 1)
                            if nk >= n or toks[nk].text != ";":
                                break
                    elif t.text == ";":
                        break
                k += 1
            end = k
            nm = _skip_ws(toks, kwpos + 1)
            if kw in ("static", "const", "type") and nm < n:
                if toks[nm].text == "mut": nm = _skip_ws(toks, nm + 1)
                it.name = toks[nm].text
        else:
            k = kwpos; end = None
            while k < n:
                t = toks[k]
                if t.kind == "punct":
                    if t.text in ("(", "["):
                        k = match_close(toks, k)
                    elif t.text == "{":
                        end = match_close(toks, k); break
                    elif t.text == ";":
                        end = k; break
                k += 1
            if end is None:
                raise ValueError("unterminated item at line %d" % it.line)
            brace = k if toks[k].text == "{" else None
            nm = _skip_ws(toks, kwpos + 1)
            if kw in ("fn", "struct", "enum", "trait", "mod", "union") and nm < n:
                it.name = toks[nm].text
            if kw == "mod" and brace is None:
                it.kind = "mod_decl"
            if kw == "fn":
                it.sig = toks[after_attrs:(brace if brace is not None else end)]
                it.body = toks[brace:end + 1] if brace is not None else None
            if kw in ("impl", "trait", "mod") and brace is not None:
                it.header = toks[after_attrs:brace]
                it.children = parse_items(toks[brace + 1:end])
        it.toks = toks[start:end + 1]
        items.append(it)
        i = end + 1
    return items

def norm(s):
    """Normalise whitespace for keys: collapse runs, no space around punctuation."""
    s = re.sub(r"\s+", " ", s.strip())
    s = re.sub(r"\s*([<>(),:&;{}\[\]=+])\s*", r"\1", s)
    return s.rstrip(",")
