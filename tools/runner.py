#!/usr/bin/env python3
"""Decide properties: extract + weave + Verus, map diagnostics to named obligations, write evidence.

usage: runner.py <PROPERTY-ID|all> [--tier quick|thorough] [--src DIR] [--no-replay] [--json]
exit: 0 held, 1 violation (prints VIOLATION property=<id> replay=<path>), 2 undecided (front end / tool problem)
"""
import os, sys, re, json, time, subprocess, hashlib, glob, shutil
HERE = os.path.dirname(os.path.abspath(__file__))
VERIF = os.path.dirname(HERE)
sys.path.insert(0, HERE)
import extract

PROPS = [json.loads(l) for l in open(os.path.join(VERIF, "properties.jsonl"))]
PROP_IDS = [p["id"] for p in PROPS]
CONFIG = json.load(open(os.path.join(VERIF, "verif_config.json")))
# properties every shared ("core.") helper contract carries
SHARED = CONFIG["shared_label_props"]

REFUTED = ("postcondition not satisfied", "precondition not satisfied", "possible arithmetic underflow/overflow",
           "assertion failed", "invariant not satisfied", "possible division by zero", "possible bit shift underflow/overflow",
           "loop invariant", "unreachable", "decreases not satisfied", "recommendation not met")
CANARY_FN = "rp_canary_must_fail"

LABEL_DEPS = {}; FN_BODY_PROPS = {}
try:
    _ld = json.load(open(os.path.join(VERIF, "label_deps.json")))
    LABEL_DEPS = _ld.get("clauses", {}); FN_BODY_PROPS = _ld.get("fn_body_props", {})
except Exception:
    pass

# vstd preconditions of the form `op.requires(args)` on a CLOSURE passed to an Option/Result combinator (map, map_err, and_then, ...):
# no run-time check corresponds to them (the repository's closures declare no `requires`), so their failure is a proof artefact
# and needs a concrete witness before it is reported.  Extracted from vstd.vir of the pinned Verus (`strings vstd.vir`, a location
# token followed by `FnWithRequiresEnsures requires`); unwrap/expect/index preconditions are NOT in this set - those are real panics.
CLOSURE_PRE = {("std_specs/core.rs", 175), ("std_specs/option.rs", 212), ("std_specs/option.rs", 232), ("std_specs/option.rs", 244),
               ("std_specs/option.rs", 268), ("std_specs/result.rs", 231), ("std_specs/result.rs", 244)}

def label_props(label):
    head = label.split(".")[0]
    ids = [x for x in head.split("+") if re.match(r"^C\d\d$", x)]
    if ids: return ids
    return list(SHARED)

def run_verus(path, seed=None, rlimit=None, extra=()):
    cmd = ["verus", path, "--output-json", "--time", "--error-format=json", "--multiple-errors", "20", "--num-threads", "16"]
    if seed is not None: cmd += ["--smt-option", "smt.random_seed=%d" % seed]
    if rlimit: cmd += ["--rlimit", str(rlimit)]
    cmd += list(extra)
    t0 = time.time()
    p = subprocess.run(cmd, capture_output=True, text=True, cwd=os.path.dirname(path))
    dt = time.time() - t0
    res = None
    try:
        res = json.loads(p.stdout)
    except Exception:
        pass
    diags = []
    for line in p.stderr.split("\n"):
        line = line.strip()
        if line.startswith("{"):
            try: diags.append(json.loads(line))
            except Exception: pass
    return {"cmd": " ".join(cmd), "rc": p.returncode, "json": res, "diags": diags, "stderr": p.stderr, "wall": dt}

class LineMap:
    def __init__(self, lines_meta):
        self.m = sorted([(a, b, meta) for a, b, meta in lines_meta], key=lambda x: (x[0], x[1]))
    def at(self, line):
        best = None
        for a, b, meta in self.m:
            if a <= line <= b and (b > a or True):
                # prefer the narrowest range
                if best is None or (b - a) <= (best[1] - best[0]): best = (a, b, meta)
        return best[2] if best else None

def classify(run, lmap, fns_by_key):
    """-> (failures, frontend_errors, canary_failed). failure = dict(kind, fn key, label, props, message, line, text)"""
    failures = []; frontend = []; canary = False
    for d in run["diags"]:
        if d.get("level") != "error": continue
        msg = d.get("message", "")
        if msg.startswith("aborting due to"): continue
        spans = d.get("spans", [])
        prim = next((s for s in spans if s.get("is_primary")), spans[0] if spans else None)
        txt = ""
        if prim and prim.get("text"): txt = prim["text"][0]["text"].strip()
        if not any(msg.startswith(k) or k in msg for k in REFUTED):
            frontend.append({"message": msg, "line": prim["line_start"] if prim else None, "text": txt,
                             "rendered": (d.get("rendered") or "")[:1500]}); continue
        # canary?
        if any(CANARY_FN in (t.get("text", "")) for s in spans for t in (s.get("text") or [])) or (d.get("rendered") and CANARY_FN in d["rendered"]):
            canary = True; continue
        metas = []
        for s in spans:
            m = lmap.at(s["line_start"])
            if m: metas.append((s, m))
        label = None; fnmeta = None; part = None
        # a labelled clause (ensures/requires) among the spans names the obligation
        for s, m in metas:
            if m.get("label"):
                label = m["label"]; part = m["part"]
        for s, m in metas:
            if m.get("part") in ("body", "sig") or (m.get("fn") and not m.get("label")):
                fnmeta = m
        # a precondition failure has two spans: the call in a repo function and the `requires` clause (possibly in shim text, e.g. runtime_assert):
        # the obligation belongs to the calling function
        repo_metas = [m for s, m in metas if m.get("fn") and m.get("part") in ("body", "sig")]
        if repo_metas and not (fnmeta and fnmeta.get("fn")): fnmeta = repo_metas[-1]
        if fnmeta is None and metas: fnmeta = metas[0][1]
        key = None
        if fnmeta and fnmeta.get("fn"):
            key = "%s|%s::%s" % (fnmeta["file"], fnmeta.get("impl", "-"), fnmeta["fn"])
        props = set()
        kind = msg.split(":")[0]
        if label: props |= set(label_props(label))
        deps_props = set()
        if label and key:
            # properties whose obligations rest on this clause in the proofs of its callers (tools/label_deps.py)
            deps_props |= set(LABEL_DEPS.get("%s#%s" % (key, label), {}).get("props", []))
        safety = []
        if key and key in fns_by_key: safety = fns_by_key[key].get("safety", [])
        body_level = not (label and part in ("ensures", "theorem"))
        if body_level:
            props |= set(safety)
            # a function verified against a defining axiom (as_ref, serialize): the properties of what rests on that axiom
            if key: deps_props |= set(FN_BODY_PROPS.get(key, []))
        if not props and key and key in fns_by_key:
            # body-level failure in a function without a safety tag: it belongs to the properties that function's own contract names
            for l in fns_by_key[key].get("ens_labels", []): props |= set(label_props(l))
        if not props and not (key and key in fns_by_key):
            # failure in spec/shim/lemma text (not in repo code): every claimed property rests on it
            props |= set(CONFIG["claimed"])
        name = label if (label and part in ("ensures", "theorem")) else None
        if name is None:
            base = (key or (fnmeta or {}).get("file", "?"))
            name = "%s.body.%s%s" % (base, re.sub(r"[^a-z]+", "_", kind.lower()).strip("_"), ("[" + label + "]") if label else "")
        closure_pre = False
        if msg.startswith("precondition not satisfied"):
            for sp in spans:
                fnm = sp.get("file_name", "")
                for (cf, cl) in CLOSURE_PRE:
                    if fnm.endswith(cf) and sp.get("line_start") == cl: closure_pre = True
        props_own = set(props); props |= deps_props
        # a failing assertion / lemma precondition inside woven proof text (repo code has no Verus `assert(..)`; its assert! macros become runtime_assert)
        span_txt = " ".join(t.get("text", "") for sp in spans for t in (sp.get("text") or []))
        hint_assert = (msg.startswith("assertion failed") or msg.startswith("precondition not satisfied")) and "runtime_assert" not in span_txt and bool(re.search(r"/\*@H:|\bassert\s*\(|\bproof\s*\{|\blemma_\w+\s*\(", span_txt))
        failures.append({"obligation": name, "kind": kind, "fn": key, "label": label, "props": sorted(props), "props_own": sorted(props_own), "message": msg, "closure_pre": closure_pre, "hint_assert": hint_assert,
                         "line": prim["line_start"] if prim else None, "text": txt, "rendered": (d.get("rendered") or "")[:3000],
                         "src_file": (fnmeta or {}).get("file"), "src_line": (fnmeta or {}).get("src_line")})
    return failures, frontend, canary

AMBIGUOUS = {"from", "into", "as_ref", "deref", "default", "fmt", "eq", "ne", "new", "len", "clone", "try_from", "try_into", "add", "to_string", "unwrap", "map_err", "to_vec", "to_owned"}
def call_edges(fns_by_key):
    """name-based call graph: fn key -> set of fn keys its body may call"""
    by_name = {}
    for k, f in fns_by_key.items(): by_name.setdefault(f["fn"], []).append(k)
    def type_of(k):
        m = re.search(r"for (\w+)|impl(?:<[^>]*>)?\s*(?:crate::\w+(?:::\w+)*::)?(\w+)", fns_by_key[k]["impl"])
        return (m.group(1) or m.group(2)) if m else None
    edges = {}
    for k, f in fns_by_key.items():
        bt = f.get("body_text", ""); out = set()
        for m in re.finditer(r"(\w+)(?:::<[^()]*?>)?::(\w+)\s*\(", bt):
            ty, name = m.group(1), m.group(2)
            for c in by_name.get(name, []):
                cty = type_of(c)
                if ty == "Self":
                    if fns_by_key[c]["impl"] == f["impl"] or cty == type_of(k): out.add(c)
                elif cty == ty or (fns_by_key[c]["impl"] == "-" ): out.add(c)
        for m in re.finditer(r"\.(\w+)\s*\(", bt):
            name = m.group(1)
            if name in AMBIGUOUS: continue
            cands = by_name.get(name, [])
            if 0 < len(cands) <= 24: out |= set(cands)
        for m in re.finditer(r"(?<![\w:.])(\w+)\s*\(", bt):
            for c in by_name.get(m.group(1), []):
                if fns_by_key[c]["impl"] == "-": out.add(c)
        out.discard(k); edges[k] = out
    return edges

def call_cone(fns_by_key):
    """property -> set of fn keys its proof depends on: closure of a name-based call graph from the functions that carry its obligations"""
    edges = call_edges(fns_by_key)
    cone = {}
    for p in PROP_IDS:
        roots = set()
        for k, f in fns_by_key.items():
            ps = set(f.get("safety", []))
            for l in f.get("ens_labels", []): ps |= set(label_props(l)) if re.match(r"^C\d\d", l) else set()
            if p in ps: roots.add(k)
        seen = set(roots); todo = list(roots)
        while todo:
            x = todo.pop()
            for y in edges.get(x, ()):
                if y not in seen: seen.add(y); todo.append(y)
        cone[p] = seen
    return cone

def scan_assumptions(text):
    """mechanical scan of the generated unit for every trusted construct (DESIGN 1.7)"""
    out = {"external_body": 0, "assume_specification": 0, "axiom fn": 0, "assume(": 0, "admit(": 0, "uninterp spec fn": 0}
    for k in list(out):
        out[k] = len(re.findall(re.escape(k), text))
    return out

BASELINE_META = {}
try:
    BASELINE_META = json.load(open(os.path.join(VERIF, "baseline_meta.json")))
except Exception:
    pass
BASELINE_PARAMS = {}
try:
    BASELINE_PARAMS = json.load(open(os.path.join(VERIF, "baseline_params.json")))
except Exception:
    pass

def build_unit(src, out_path, stub_fns=(), drop_uses=(), drop_contract_fns=(), ext_consts=(), renames=None, inline_fns=(), drop_hints=()):
    os.environ["VERIF_REPO_SRC"] = src
    extract.REPO_SRC = src
    specs = sorted(glob.glob(os.path.join(VERIF, "contracts", "*.vspec")))
    shims = sorted(glob.glob(os.path.join(VERIF, "shims", "*.rs"))) + sorted(glob.glob(os.path.join(VERIF, "specs", "*.rs")))
    rx = re.compile(CONFIG["exclude"]) if CONFIG.get("exclude") else None
    inc = (lambda rel: not rx.search(rel)) if rx else None
    return extract.build(inc, (), specs, shims, out_path, stub_fns=stub_fns, drop_uses=drop_uses, drop_contract_fns=drop_contract_fns, ext_consts=ext_consts, renames=renames, inline_fns=inline_fns, baseline_params=BASELINE_PARAMS, drop_hints=drop_hints)

def obligations_for(ctx):
    """named obligations per property: labelled ensures clauses + one body-safety obligation per fn tagged safety=..."""
    per = {p: [] for p in PROP_IDS}
    for f in ctx.fn_index:
        key = "%s|%s::%s" % (f["file"], f["impl"], f["fn"])
        if f.get("external_body") and f.get("ens_labels"):
            # contract is assumed, not discharged here
            continue
        for lab in f.get("ens_labels", []):
            for p in label_props(lab):
                if p in per: per[p].append(lab)
        for p in f.get("safety", []):
            if p in per and not f.get("external_body"): per[p].append(key + ".body.safety")
    for t in getattr(ctx, "theorems", []):
        for p in label_props(t["label"]):
            if p in per: per[p].append(t["label"])
    return per

def main(argv):
    import argparse
    ap = argparse.ArgumentParser()
    ap.add_argument("prop")
    ap.add_argument("--tier", default=os.environ.get("VERIF_TIER", "quick"))
    ap.add_argument("--src", default=os.environ.get("VERIF_REPO_SRC", "/repo/src"))
    ap.add_argument("--no-replay", action="store_true")
    ap.add_argument("--out", default=None)
    ap.add_argument("--no-evidence", action="store_true")
    ap.add_argument("--write-baseline", action="store_true")
    a = ap.parse_args(argv)
    seed = int(os.environ.get("VERIF_SEED", "0") or 0)
    t0 = time.time()
    props = PROP_IDS if a.prop == "all" else [a.prop]
    claimed = CONFIG["claimed"]
    build_dir = a.out or os.path.join(VERIF, "build", "run_%s" % (a.prop))
    os.makedirs(build_dir, exist_ok=True)
    unit = os.path.join(build_dir, "all.rs")
    if a.write_baseline:
        text, lines_meta, ctx = build_unit(a.src, unit)
        json.dump({"%s|%s::%s" % (f["file"], f["impl"], f["fn"]): f["body_hash"] for f in ctx.fn_index}, open(os.path.join(VERIF, "baseline_fns.json"), "w"), indent=0, sort_keys=True)
        json.dump({"%s|%s::%s" % (f["file"], f["impl"], f["fn"]): f.get("sig_norm", "") for f in ctx.fn_index}, open(os.path.join(VERIF, "baseline_sigs.json"), "w"), indent=0, sort_keys=True)
        json.dump({"%s|%s::%s" % (f["file"], f["impl"], f["fn"]): f.get("params") for f in ctx.fn_index if f.get("params")}, open(os.path.join(VERIF, "baseline_params.json"), "w"), indent=0, sort_keys=True)
        json.dump({"%s|%s::%s" % (f["file"], f["impl"], f["fn"]): {"closure_calls": f.get("closure_calls", 0), "callees": f.get("callees", []), "loops": f.get("loops", 0), "ret": (f.get("sig_norm", "").split("->", 1)[1].strip() if "->" in f.get("sig_norm", "") else "")} for f in ctx.fn_index}, open(os.path.join(VERIF, "baseline_meta.json"), "w"), indent=0, sort_keys=True)
        print("baseline written"); return 0
    baseline = {}
    bp = os.path.join(VERIF, "baseline_fns.json")
    if os.path.exists(bp): baseline = json.load(open(bp))
    stub = set(); drop_uses = set(); stub_reason = {}; drop_contracts = set(); ext_consts = set(); renames = {}; inline_fns = set(); inline_tried = False; drop_hints = set()
    base_sigs = {}
    if os.path.exists(os.path.join(VERIF, "baseline_sigs.json")): base_sigs = json.load(open(os.path.join(VERIF, "baseline_sigs.json")))
    runs = []; undecided = None; base = None
    for attempt in range(30):
        try:
            text, lines_meta, ctx = build_unit(a.src, unit, stub, drop_uses, drop_contracts, ext_consts, renames, inline_fns, drop_hints)
        except extract.ExtractError as e:
            return global_fallback(a, props, claimed, "extraction failed: %s" % e)
        lmap = LineMap(lines_meta)
        fns_by_key = {"%s|%s::%s" % (f["file"], f["impl"], f["fn"]): f for f in ctx.fn_index}
        for k, f in fns_by_key.items():
            if f.get("forced_stub_reason") and k not in stub: stub.add(k); stub_reason[k] = f["forced_stub_reason"]
            # a repo function whose contract is ASSUMED (external_body: Display, wrap_value, ...) and whose body changed: the assumption was made
            # about the old body - the function is outside the verifier's reach and the bounded witness search decides (DESIGN 2.4)
            #  - not for Display/Debug::fmt: their ghost text (DispSpec) is regenerated from the CURRENT body on every run (R-display), an
            #    unrecognised body gets an uninterpreted text and whatever rested on it fails by itself;
            #  - not for Header::default: the Kani closed-term harnesses re-check it whenever its file changes
            regenerated = f["fn"] == "fmt" or (f["fn"] == "default" and f["file"] == "core/header.rs")
            if baseline and f["external_body"] and not regenerated and k in baseline and baseline.get(k) != f["body_hash"] and k not in stub:
                stub.add(k); stub_reason[k] = "body of a function whose contract is assumed (external_body) has changed"
        changed = [k for k, f in fns_by_key.items() if baseline and baseline.get(k) != f["body_hash"] and not f["external_body"] and k not in stub]
        # a contracted function that vanished while a new one with the same signature appeared in the same impl: a rename, the contract follows
        more = False
        for lc in getattr(ctx, "lost_contracts", []):
            fpart, npart = lc["fn"].rsplit("::", 1)
            cands = [k for k, f in fns_by_key.items() if baseline and k not in baseline and k.rsplit("::", 1)[0] == fpart and not f["contract"] and f.get("sig_norm") == base_sigs.get(lc["fn"])]
            if not cands:
                # moved rather than renamed: same file, same name, same signature, another impl block / free function
                bt = [t for _, t in (BASELINE_PARAMS.get(lc["fn"]) or [])]
                cands = [k for k, f in fns_by_key.items() if baseline and k not in baseline and k.split("|")[0] == fpart.split("|")[0] and f["fn"] == npart and not f["contract"]
                         and (f.get("sig_norm") == base_sigs.get(lc["fn"]) or (f.get("params") is not None and [t for _, t in f["params"]] == bt))]
            if len(cands) == 1:
                f = fns_by_key[cands[0]]
                if (f["file"], f["impl"], f["fn"]) not in renames: renames[(f["file"], f["impl"], f["fn"])] = lc["fn"]; more = True
        if more: continue
        # brand-new private helpers have no contract: inline them at their call sites (R-inline) so that callers are checked on what they now do
        if baseline and not inline_tried:
            inline_tried = True
            fresh = set(k for k, f in fns_by_key.items() if k not in baseline and not f["contract"] and not f["external_body"] and f.get("sig_norm") is not None)
            if fresh:
                inline_fns = fresh; continue
        r = run_verus(unit)
        crashed = (r["json"] is None) or ("panicked at" in r["stderr"]) or ("internal compiler error" in r["stderr"])
        fails, frontend, canary = classify(r, lmap, fns_by_key) if r["json"] is not None or r["diags"] else ([], [], False)
        rl = [d for d in r["diags"] if "rlimit" in (d.get("message", "").lower()) or "resource limit" in d.get("message", "").lower()]
        if rl:
            # the solver gave up on a function of a CHANGED tree (the function itself changed, or it now calls something whose contract was lost):
            # it is outside the verifier's reach (stub and go on).  On the unchanged tree this is a problem of the machinery itself -> undecided
            prog = False
            for d in rl:
                sp = next((x for x in d.get("spans", []) if x.get("is_primary")), None)
                m = lmap.at(sp["line_start"]) if sp else None
                k = "%s|%s::%s" % (m["file"], m.get("impl", "-"), m["fn"]) if (m and m.get("fn")) else None
                if k and k not in stub and (k in changed or changed or stub): stub.add(k); stub_reason[k] = "the solver's resource limit was exceeded on this function of the changed tree"; prog = True
            if prog: continue
            if os.environ.get("RUNNER_DEBUG"): print("DEBUG rlimit: %s" % [(d.get("message", "")[:80], [(x.get("line_start"), (lmap.at(x["line_start"]) or {}).get("fn")) for x in d.get("spans", [])]) for d in rl], file=sys.stderr)
            undecided = "resource limit exceeded"; break
        if os.environ.get("RUNNER_DEBUG"):
            print("DEBUG attempt %d: crashed=%s frontend=%s stub=%s drop_uses=%s" % (attempt, crashed, [(f["message"][:90], f["line"]) for f in frontend[:6]], sorted(stub), sorted(drop_uses)), file=sys.stderr)
        if frontend or crashed:
            progressed = False
            for fe in frontend:
                m = lmap.at(fe["line"]) if fe["line"] else None
                mh = re.search(r"/\*@H:([\w#]+)\*/", fe.get("text") or "")
                if m and m.get("fn") and mh:
                    # the error is inside a woven proof hint (it names a local that was renamed, ...): drop that hint, keep verifying the function
                    hk = ("%s|%s::%s" % (m["file"], m.get("impl", "-"), m["fn"]), mh.group(1))
                    if hk not in drop_hints: drop_hints.add(hk); progressed = True
                elif m and m.get("fn") and m.get("part") in ("body", "sig", "requires", "ensures"):
                    k = "%s|%s::%s" % (m["file"], m.get("impl", "-"), m["fn"])
                    if k not in stub and not fns_by_key.get(k, {}).get("external_body"):
                        stub.add(k); stub_reason[k] = "unsupported construct: %s" % fe["message"][:160]; progressed = True
                    elif m.get("part") in ("requires", "ensures", "sig") and k not in drop_contracts:
                        # the contract itself does not type-check against the changed signature: drop it, keep the function stubbed
                        drop_contracts.add(k); stub.add(k); stub_reason[k] = "contract no longer fits the changed signature: %s" % fe["message"][:120]; progressed = True
                elif m and m.get("part") == "item" and m.get("kind") == "const" and m.get("name") and (m["file"], m["name"]) not in ext_consts:
                    ext_consts.add((m["file"], m["name"])); progressed = True
                elif m and m.get("part") == "item" and m.get("use_norm"):
                    if (m["file"], m["use_norm"]) not in drop_uses:
                        drop_uses.add((m["file"], m["use_norm"])); progressed = True
            if not progressed:
                if changed:
                    for k in changed: stub.add(k); stub_reason[k] = "verifier front end failed on changed code (%s)" % ("crash" if crashed else (frontend[0]["message"][:120] if frontend else "?"))
                    progressed = True
            if not progressed:
                undecided = "front-end error in generated unit: " + ("verifier crashed: " + r["stderr"][-300:] if crashed and not frontend else "; ".join("%s @%s `%s`" % (f["message"][:200], f["line"], f["text"][:80]) for f in frontend[:5]))
                break
            continue
        if not canary:
            print("UNDECIDED: canary `ensures false` was PROVED - assumed contracts are inconsistent"); return 2
        cone = call_cone(fns_by_key)
        for f in fails:
            # direct attribution = the obligation's own label / the function's safety tag; cone attribution (the function is only
            # reachable from functions carrying the property) is weaker: it needs a concrete witness before it is reported
            # panic freedom (C09) is an obligation of every function in its call cone: a body-level refutation there (index, slice boundary,
            # overflow, unwrap, a callee's precondition) is C09's own, whether or not the function carries a safety tag
            if f["fn"] and ".body." in f["obligation"] and not f.get("hint_assert"):
                for sp in CONFIG.get("safety_props", ["C09"]):
                    if f["fn"] in cone.get(sp, ()) and sp not in f["props"]: f["props"] = sorted(set(f["props"]) | {sp}); f["props_own"] = sorted(set(f.get("props_own", [])) | {sp})
            f["props_direct"] = sorted(f["props"])
            if f["fn"]:
                f["props"] = sorted(set(f["props"]) | set(p for p in PROP_IDS if f["fn"] in cone[p]))
        runs.append(r); base = fails
        break
    else:
        undecided = "could not isolate unsupported constructs after 30 attempts"
    if undecided:
        return global_fallback(a, props, claimed, undecided)
    if a.tier == "thorough":
        names = [set(f["obligation"] for f in base)]
        for sd in (1 + seed, 7 + seed, 13 + seed):
            r2 = run_verus(unit, seed=sd)
            if r2["json"] is None: print("UNDECIDED: verus crashed under seed %d" % sd); return 2
            f2, fe2, c2 = classify(r2, lmap, fns_by_key)
            if fe2: print("UNDECIDED: front-end error under seed %d" % sd); return 2
            runs.append(r2); names.append(set(f["obligation"] for f in f2))
        unstable = set.union(*names) - set.intersection(*names)
        if unstable:
            print("UNDECIDED: unstable proof (seed-dependent): %s" % sorted(unstable)); return 2
    for lc in getattr(ctx, "lost_contracts", []):
        print("NOTE: function %s no longer exists; its contract (%s, obligations %s) was dropped - callers are checked against their own contracts" % (lc["fn"], lc["contract"], ", ".join(lc["labels"])[:300]))
    new_fns = set(k for k in fns_by_key if baseline and k not in baseline and not fns_by_key[k]["contract"])
    new_names = set(fns_by_key[k]["fn"] for k in new_fns)
    # a NEW free function or inherent method whose name occurs nowhere else in the extracted code is dead code as far as every property goes
    # (trait-impl methods are called implicitly - Drop, PartialEq, Display, From - and stay attributed)
    unreferenced_new = set()
    for k in new_fns:
        f0 = fns_by_key[k]
        if " for " in f0.get("impl", "") or f0["fn"] in AMBIGUOUS: continue
        pat = re.compile(r"\b%s\b" % re.escape(f0["fn"]))
        if not any(k2 != k and pat.search(f2.get("body_text", "")) for k2, f2 in fns_by_key.items()): unreferenced_new.add(k)
    changed_fns = set(k for k, f in fns_by_key.items() if baseline and baseline.get(k) != f["body_hash"])
    inlined_names = set(getattr(ctx, "inline_defs", {}) or {})
    for n in sorted(inlined_names): print("NOTE: new helper `%s` has no contract; it was inlined at its call sites (R-inline) so its callers are checked on what they now do" % n)
    per_prop_obl = obligations_for(ctx)
    known = json.load(open(os.path.join(VERIF, "known_findings.json")))
    rc = 0
    vr = runs[0]["json"]["verification-results"]
    times = runs[0]["json"].get("times-ms", {})
    assumptions_scan = scan_assumptions(text)
    trusted = json.load(open(os.path.join(VERIF, "assumptions.json")))
    exit_undecided = False
    for pid in props:
        if pid not in claimed: continue
        fails = [f for f in base if pid in f["props"]]
        obls = per_prop_obl.get(pid, [])
        # functions outside the verifier's reach (stubbed) that carry obligations of this property
        out_of_reach = []; out_of_reach_cone = []
        for k in stub:
            f = fns_by_key.get(k)
            if not f: continue
            ps = set(f.get("safety", []))
            if k in drop_contracts:
                for (sf, simpl, sname), fs in ctx.specs.fns.items():
                    if "%s|%s::%s" % (sf, simpl, sname) == k:
                        ps |= set(fs.safety)
                        for l, _ in fs.requires + fs.ensures: ps |= set(label_props(l))
            for l in f.get("labels", []):
                ps |= set(label_props(l))
                ps |= set(LABEL_DEPS.get("%s#%s" % (k, l), {}).get("props", []))     # what rests on its clauses in callers' proofs
            ps |= set(FN_BODY_PROPS.get(k, []))
            # an uncontracted helper that became unverifiable: every shared-core property may rest on it.  Not for functions that are
            # external_body on the unchanged tree as well and carry no label (Payload == R, Debug): nothing was ever proved through them
            if not f.get("labels") and not f.get("safety") and not (f["external_body"] and not f.get("stubbed")) and k not in unreferenced_new: ps |= set(SHARED)
            if pid in ps: out_of_reach.append((k, stub_reason.get(k, "")))
            # panic freedom (C09) is an obligation of EVERY function reachable from a decrypt / verify / parse entry point: a callee the
            # verifier cannot take carries it directly, named in a contract or not
            elif k in cone.get(pid, ()) and pid in CONFIG.get("safety_props", ["C09"]) and k not in unreferenced_new: out_of_reach.append((k, stub_reason.get(k, "")))
            elif k in cone.get(pid, ()): out_of_reach_cone.append((k, stub_reason.get(k, "")))
        kani_info = None
        if pid in KANI_PROPS:
            touched = any(k.split("|")[0].startswith(KANI_FILES) for k in fns_by_key if baseline and baseline.get(k) != fns_by_key[k]["body_hash"])
            if a.tier == "thorough" or touched:
                if "kani" not in globals().get("_KANI_CACHE", {}): globals().setdefault("_KANI_CACHE", {})["kani"] = run_kani(a.src)
                kani_info = _KANI_CACHE["kani"]
                if kani_info.get("error") and not kani_info["results"]:
                    print("UNDECIDED: Kani harnesses could not be run: %s" % str(kani_info["error"])[-400:]); exit_undecided = True
                for hname, ok in sorted(kani_info["results"].items()):
                    if hname.startswith(KANI_PROPS[pid]):
                        obls = obls + ["%s.kani.%s" % (pid, hname)]
                        if not ok:
                            fails = fails + [{"obligation": "%s.kani.%s" % (pid, hname), "kind": "Kani closed-term harness failed", "fn": None, "label": None, "props": [pid], "message": "VERIFICATION:- FAILED",
                                              "line": None, "text": "", "rendered": "harness proofs::%s on the real source failed (closed term: the instantiation is the failing input)" % hname, "src_file": "kani/lib.rs.tmpl", "src_line": None}]
        kf = [k for k in known.get("findings", []) if k["property"] == pid]
        new_fails = []
        for f in fails:
            hit = next((k for k in kf if k["obligation"] == f["obligation"]), None)
            if hit: print("KNOWN-FINDING: property=%s %s" % (pid, hit["what_fails"]))
            else: new_fails.append(f)
        failed_names = set(f["obligation"] for f in fails)
        failed_fns = set(f["fn"] for f in fails if f["fn"])
        discharged = len([o for o in obls if o not in failed_names and not (o.endswith(".body.safety") and o[:-len(".body.safety")] in failed_fns)])
        # does a refutation rest on dropped proof hints or on a new function without contract?  then it needs a concrete witness
        hint_fail_fns = set(x["fn"] for x in base if x.get("hint_assert") and x["fn"])
        def weak(f):
            fn = fns_by_key.get(f["fn"] or "", {})
            if fn.get("closure_calls", 0) > BASELINE_META.get(f["fn"] or "", {}).get("closure_calls", 0):
                return "the changed body passes closures to Option/Result/iterator combinators; the verifier does not see what an un-annotated closure returns"
            bm = BASELINE_META.get(f["fn"] or "")
            if bm is not None and "callees" in bm and (f["fn"] in changed_fns):
                # (std selectors / predicates with exact vstd specifications do not count: swapping one for another is decided by the verifier)
                newc = sorted(set(fn.get("callees", [])) - set(bm["callees"]) - {"is_some", "is_none", "is_ok", "is_err", "is_empty", "len", "unwrap", "min", "max", "clone", "eq", "ne", "Some", "Ok", "Err"})
                if newc: return "the changed body calls what the old one did not (%s): the contract's proof was written against the old calls and may simply lack a lemma about the new ones" % ", ".join("`%s`" % c for c in newc[:6])
                if fn.get("loops", 0) > bm.get("loops", 0): return "the changed body has a loop the old one did not have; without a loop invariant the verifier knows nothing about its result"
                nret = (fn.get("sig_norm", "").split("->", 1)[1].strip() if "->" in fn.get("sig_norm", "") else "")
                if nret != bm.get("ret", nret): return "the function's return type changed (%s -> %s); the contract was written for the old one" % (bm.get("ret") or "()", nret or "()")
            if f.get("hint_assert") or (f["fn"] and f["fn"] in hint_fail_fns): return "a proof hint (an assertion woven in from the contract file, written for the old statement order) no longer holds at its anchor"
            if f.get("closure_pre"): return "precondition of a closure passed to an Option/Result combinator (ghost-level only: no run-time check corresponds to it)"
            if pid not in f.get("props_direct", f["props"]): return "obligation of a callee that does not name this property (reached through the call cone only)"
            if pid not in f.get("props_own", f["props"]): return "the clause does not name this property; an obligation of this property rests on it in a caller's proof (proof-dependency table)"
            if fn.get("hints_dropped"): return "proof hints lost their anchors (%s)" % ", ".join(fn["hints_dropped"])
            bt = fn.get("body_text", "")
            for k2 in drop_contracts:
                n2 = fns_by_key.get(k2, {}).get("fn")
                if n2 and re.search(r"\b%s\s*\(" % re.escape(n2), bt): return "calls `%s` whose contract no longer type-checks against its changed signature (contract dropped)" % n2
            for k2 in changed_fns:
                f2 = fns_by_key.get(k2, {}); b2 = BASELINE_META.get(k2)
                if not b2 or "ret" not in b2 or k2 == f["fn"]: continue
                r2 = (f2.get("sig_norm", "").split("->", 1)[1].strip() if "->" in f2.get("sig_norm", "") else "")
                if r2 != b2["ret"] and f2.get("fn") and re.search(r"\b%s\s*\(" % re.escape(f2["fn"]), bt): return "calls `%s` whose return type changed (%s -> %s); its contract was written for the old one" % (f2["fn"], b2["ret"] or "()", r2 or "()")
            for n in new_names:
                if n in inlined_names: continue
                if re.search(r"\b%s\s*\(" % re.escape(n), bt): return "calls new function `%s` which has no contract" % n
            if f["fn"] in new_fns: return "function is new and has no contract"
            if getattr(ctx, "lost_contracts", None) and f["fn"] in changed_fns and any(lc["fn"].split("|")[0] == (f["fn"] or "").split("|")[0] for lc in ctx.lost_contracts):
                return "a contracted function of this file no longer exists; the proof hints it carried went with it"
            return None
        replay_path = None
        cone_only = bool(new_fails or out_of_reach_cone) and not out_of_reach and all(pid not in f.get("props_direct", f["props"]) for f in new_fails)
        if new_fails or out_of_reach or out_of_reach_cone:
            witness = None
            if not a.no_replay:
                witness = find_witness(pid, new_fails, a.src)
            found = bool(witness and witness.get("found"))
            kani_fail = [f for f in new_fails if ".kani." in f["obligation"]]
            if kani_fail and not found:
                witness = {"found": True, "witness": "closed-term Kani harness %s fails on the real source: %s" % (kani_fail[0]["obligation"].split(".")[-1], kani_fail[0]["rendered"]), "by": "kani/cbmc"}
                found = True
            strong = [f for f in new_fails if not weak(f)]
            if strong or found:
                rc = 1
                rdir = os.path.join(VERIF, "replays"); os.makedirs(rdir, exist_ok=True)
                replay_path = os.path.join(rdir, "%s.json" % pid)
                json.dump({"property": pid,
                           "failed_obligations": [dict({k: f[k] for k in ("obligation", "kind", "fn", "label", "message", "src_file", "src_line", "text", "rendered")}, needs_witness=weak(f)) for f in new_fails],
                           "functions_outside_verifier": [{"fn": k, "reason": why} for k, why in out_of_reach + out_of_reach_cone],
                           "witness": witness, "verifier_cmd": runs[0]["cmd"], "unit": unit}, open(replay_path, "w"), indent=1)
                seen_o = set()
                direct_first = sorted(new_fails, key=lambda f: 0 if pid in f.get("props_direct", f["props"]) else 1)
                for f in direct_first:
                    if f["obligation"] in seen_o or len(seen_o) >= 10: continue
                    seen_o.add(f["obligation"])
                    via = "" if pid in f.get("props_direct", f["props"]) else " [callee obligation, reached through the call cone]"
                    print("FAILED-OBLIGATION: property=%s %s (%s) at %s:%s%s" % (pid, f["obligation"], f["kind"], f["src_file"], f["src_line"], via))
                for k, why in out_of_reach + out_of_reach_cone:
                    print("OUT-OF-REACH: property=%s %s (%s) - decided by the bounded witness search only" % (pid, k, why))
                if found: print("WITNESS: %s" % witness.get("witness"))
                print("VIOLATION property=%s replay=%s%s" % (pid, replay_path, "" if found else " no-failing-input-found"))
            elif cone_only:
                # nothing this property's own obligations name has failed; the changed callee was examined by the witness search as well
                for f in new_fails[:5]:
                    print("NOTE: property=%s callee obligation %s failed; it is not among the obligations %s rests on%s" % (pid, f["obligation"], pid, "" if a.no_replay else " and the bounded witness search found no failing input for " + pid))
                for k, why in out_of_reach_cone[:5]:
                    print("NOTE: property=%s callee %s is outside the verifier's reach (%s); it carries no obligation of %s%s" % (pid, k, why, pid, "" if a.no_replay else " and the bounded witness search found no failing input for " + pid))
            else:
                exit_undecided = True
                for f in new_fails[:10]:
                    print("UNDECIDED-OBLIGATION: property=%s %s (%s): %s; no concrete failing input found" % (pid, f["obligation"], f["kind"], weak(f)))
                for k, why in out_of_reach:
                    print("UNDECIDED: property=%s function %s is outside the verifier's reach (%s) and the bounded witness search found no failing input" % (pid, k, why))
        bounded = None
        tree_changed = bool(changed_fns or new_fns or stub or getattr(ctx, "lost_contracts", None))
        if (a.tier == "thorough" or tree_changed) and not a.no_replay and not (new_fails or out_of_reach or out_of_reach_cone):
            # (also in the quick tier whenever the tree differs from the baseline: a change can be equivalent under the ASSUMED contracts of
            #  the dependencies and still behave differently - only a run on the real crates can tell)
            # thorough tier, or any tier on a changed tree: the bounded witness search also runs when nothing was refuted - a concrete cross-check of the ASSUMED contracts
            # (crypto, base64, serde, time shims) against the real crates and an independent transcription of the spec.  Not proof, labelled bounded.
            bounded = find_witness(pid, [], a.src)
            if bounded.get("found"):
                hit = next((k for k in kf if k.get("witness_prefix") and str(bounded.get("witness", "")).startswith(k["witness_prefix"])), None)
                if hit: print("KNOWN-FINDING: property=%s %s" % (pid, hit["what_fails"]))
                else:
                    rc = 1
                    rdir = os.path.join(VERIF, "replays"); os.makedirs(rdir, exist_ok=True)
                    replay_path = os.path.join(rdir, "%s.json" % pid)
                    json.dump({"property": pid, "failed_obligations": [], "witness": bounded, "note": "every obligation is discharged, yet the bounded search found a concrete failing input on the real code: an assumed contract (shim) or the specification transcription does not describe the real dependency"}, open(replay_path, "w"), indent=1)
                    print("WITNESS: %s" % bounded.get("witness"))
                    print("VIOLATION property=%s replay=%s" % (pid, replay_path))
        if not a.no_evidence:
            write_evidence(pid, a.tier, seed, obls, discharged, fails, runs, vr, times, ctx, assumptions_scan, trusted, time.time() - t0, unit, out_of_reach, kani_info, bounded)
    if rc == 0 and exit_undecided:
        return 2
    if rc == 0:
        print("OK %s: verus %d verified, 0 property obligations refuted (tier %s, %.1fs)" % (a.prop, vr.get("verified", 0), a.tier, time.time() - t0))
    return rc

def run_kani(src):
    """closed-term Kani harnesses on the real header/version/purpose/PAE files (complete proofs, no bound on inputs): harness -> ok"""
    h = hashlib.md5(os.path.abspath(src).encode()).hexdigest()[:10]
    d = os.path.join(VERIF, "build", "kani_" + h); os.makedirs(os.path.join(d, "src"), exist_ok=True)
    # the harness crate is named after the hash of the tree it is built for: concurrent runs against different copies share the target
    # directory (dependencies are built once) but never each other's artifacts
    open(os.path.join(d, "Cargo.toml"), "w").write(open(os.path.join(VERIF, "kani", "Cargo.toml")).read().replace('name = "rp_kani"', 'name = "rp_kani_%s"' % h))
    if os.path.exists(os.path.join(VERIF, "kani", "Cargo.lock")): shutil.copy(os.path.join(VERIF, "kani", "Cargo.lock"), os.path.join(d, "Cargo.lock"))
    open(os.path.join(d, "src", "lib.rs"), "w").write(open(os.path.join(VERIF, "kani", "lib.rs.tmpl")).read().replace("@SRC@", os.path.abspath(src)))
    env = dict(os.environ, CARGO_NET_OFFLINE="true", CARGO_TARGET_DIR=os.path.join(VERIF, "build", "kani_target"))
    t0 = time.time()
    try:
        p = subprocess.run(["cargo", "kani"], cwd=d, env=env, capture_output=True, text=True, timeout=1800)
    except Exception as e:
        return {"error": repr(e), "results": {}, "wall": time.time() - t0}
    res = {}; cur = None
    for line in p.stdout.split("\n"):
        m = re.match(r"Checking harness proofs::(\w+)", line)
        if m: cur = m.group(1)
        m = re.match(r"VERIFICATION:- (\w+)", line)
        if m and cur: res[cur] = (m.group(1) == "SUCCESSFUL")
    err = None
    if not res: err = (p.stdout[-600:] + p.stderr[-1200:])
    return {"error": err, "results": res, "wall": time.time() - t0, "cmd": "cargo kani (harness crate kani/, real sources included by #[path])"}

KANI_PROPS = {"C07": "header_", "C08": "le64_"}
KANI_FILES = ("core/header.rs", "core/version/", "core/purpose/", "core/common/pre_authentication_encoding.rs")

def global_fallback(a, props, claimed, why):
    """the verifier could not take the changed tree at all: the bounded concrete witness search is the only thing left.
    A concrete failing input against the real code is reported as a violation; otherwise the property is undecided (exit 2)."""
    rc = 2
    for pid in props:
        if pid not in claimed: continue
        witness = None if a.no_replay else find_witness(pid, [], a.src)
        if witness and witness.get("found"):
            rdir = os.path.join(VERIF, "replays"); os.makedirs(rdir, exist_ok=True)
            rp = os.path.join(rdir, "%s.json" % pid)
            json.dump({"property": pid, "failed_obligations": [], "verifier_status": "undecided: " + why, "witness": witness,
                       "note": "no obligation could be generated for the changed tree; the violation is established by the concrete failing input below (bounded search, DESIGN 1.5)"}, open(rp, "w"), indent=1)
            print("OUT-OF-REACH: property=%s whole unit (%s) - decided by the bounded witness search only" % (pid, why[:200]))
            print("WITNESS: %s" % witness.get("witness"))
            print("VIOLATION property=%s replay=%s" % (pid, rp)); rc = 1
        else:
            print("UNDECIDED: %s%s" % (why[:600], "" if a.no_replay else "; the bounded witness search found no failing input for %s" % pid))
    return rc

def find_witness(pid, fails, src):
    """run the concrete witness finder of the replay crate against the real crate (only after a refutation)"""
    rp = os.path.join(VERIF, "replay", "run.sh")
    if not os.path.exists(rp): return {"found": False, "note": "no witness finder for this property"}
    try:
        repo = os.path.dirname(os.path.abspath(src))
        p = subprocess.run([rp, pid, repo], capture_output=True, text=True, timeout=1500)
        out = p.stdout[-6000:]
        m = re.search(r"^WITNESS (.*)$", p.stdout, re.M)
        return {"found": bool(m), "witness": m.group(1) if m else None, "output": out, "rc": p.returncode}
    except Exception as e:
        return {"found": False, "note": "witness finder failed to run: %r" % e}

def write_evidence(pid, tier, seed, obls, discharged, fails, runs, vr, times, ctx, scan, trusted, wall, unit, out_of_reach=(), kani_info=None, bounded=None):
    fn_under = [f for f in ctx.fn_index if f["contract"]]
    smt = times.get("smt", {}) if isinstance(times, dict) else {}
    fb = []
    for m in smt.get("smt-run-module-times", []) or []:
        for f in m.get("function-breakdown", []) or []:
            fb.append((f.get("time-micros", 0), f.get("function"), f.get("rlimit")))
    fb.sort(reverse=True)
    samples = []
    lab_text = {}
    for f in ctx.fn_index:
        for lab, txt in f.get("ens_texts", []):
            lab_text[lab] = (f, txt)
    for t in getattr(ctx, "theorems", []):
        if t["label"] in obls and len(samples) < 2:
            samples.append({"obligation": t["label"], "function": "proof fn %s (%s)" % (t["fn"], t["file"]), "clause": t["text"][:400], "backend": "verus/z3"})
    for o in sorted(obls, key=lambda o: (0 if re.match(r"^C\d\d", o) and pid in o.split(".")[0] else 1)):
        if o in lab_text and len(samples) < 6:
            f, txt = lab_text[o]
            samples.append({"obligation": o, "function": "%s :: %s::%s" % (f["file"], f["impl"], f["fn"]), "clause": " ".join(txt.split())[:400], "backend": "verus/z3"})
    for o in obls:
        if o.endswith(".body.safety") and len(samples) < 8:
            samples.append({"obligation": o, "clause": "every index, slice range, arithmetic operation, unwrap/expect and callee precondition in the body is proved safe", "backend": "verus/z3"}); break
    rules = {}
    for r in ctx.rewrites: rules[r["rule"]] = rules.get(r["rule"], 0) + 1
    ev = {
        "property_id": pid, "tier": tier, "seed": seed, "level": "proof",
        "coverage": {
            "obligations": len(obls), "discharged": discharged,
            "checker_cmd": runs[0]["cmd"],
            "trusted_base": trusted.get("always", []) + trusted.get(pid, []),
            "samples": samples,
            "functions_under_contract": len(fn_under),
            "functions_under_contract_for_property": sorted(set("%s::%s" % (f["file"], f["fn"]) for f in fn_under if any(pid in extract_label_props(l) for l in f.get("labels", [])) or pid in f.get("safety", []))),
            "verus_functions_verified": vr.get("verified"), "verus_errors": vr.get("errors"),
            "backend": "verus 0.2026.09.13 / bundled z3; %d run(s)%s" % (len(runs), " (3 extra random seeds)" if len(runs) > 1 else ""),
            "solver_time_ms": {"total": times.get("total"), "smt_run": smt.get("smt-run"), "verify": times.get("total-verify")},
            "slowest_functions": [{"function": f, "ms": t / 1000.0, "rlimit": rl} for t, f, rl in fb[:5]],
            "extraction": {"files": len(ctx.files), "functions": len(ctx.fn_index), "external_body_functions": sorted("%s::%s" % (f["file"], f["fn"]) for f in ctx.fn_index if f["external_body"]),
                           "dropped": ctx.dropped, "rewrite_rule_applications": rules},
            "assumption_scan": scan,
            "unit": os.path.relpath(unit, VERIF),
            "refuted": [f["obligation"] for f in fails],
            "functions_outside_verifier": [k for k, _ in out_of_reach],
            "attribution_table": {"clauses_analysed": len(LABEL_DEPS), "clauses_with_dependents": sum(1 for v in LABEL_DEPS.values() if v.get("dependents")), "source": "label_deps.json (tools/label_deps.py: each clause replaced by `true`, callers re-verified)"},
            "bounded_cross_check": ({"what": "witness finder of replay/ run on this tree although nothing was refuted (thorough tier, or any tier when the tree differs from the baseline): concrete cross-check of the assumed contracts against the real crates; bounded, not counted as proof", "found": bool(bounded.get("found")), "witness": bounded.get("witness")} if bounded is not None else "not run (quick tier on the unchanged tree)"),
            "kani": ({"backend": "kani 0.68 / cbmc", "harnesses": kani_info["results"], "wall_s": round(kani_info.get("wall", 0), 1), "cmd": kani_info.get("cmd")} if kani_info else "not run in this tier (header constants are then an assumption of the Verus unit)"),
        },
        "assumptions": trusted.get("assumption_text", []) + trusted.get("assumption_text_" + pid, []),
        "wall_s": round(wall, 2),
        "violations": len(fails),
    }
    os.makedirs(os.path.join(VERIF, "evidence"), exist_ok=True)
    json.dump(ev, open(os.path.join(VERIF, "evidence", "%s.json" % pid), "w"), indent=1)

def extract_label_props(l):
    return label_props(l)

if __name__ == "__main__":
    sys.exit(main(sys.argv[1:]))
