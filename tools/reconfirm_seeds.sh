#!/bin/bash
# re-validate every seeded change against the CURRENT /repo HEAD in scratch worktrees (3 in parallel); writes seeded/<id>/reconfirm.txt
set -u
ids=($(ls /verif/seeded | grep -v obsolete))
work() { w=$1; shift
  WT=/tmp/wt_re$w; git -C /repo worktree add --detach $WT HEAD >/dev/null 2>&1; cp -r /repo/target $WT/target
  for sid in "$@"; do
    S=/verif/seeded/$sid; cd $WT && git checkout -q -- . && rm -f tests/demo.rs
    cmd=$(python3 -c "import json;print(json.load(open('$S/meta.json'))['demo_cmd'])" | sed -E 's#cd /tmp/wt_C[0-9]+ && ##; s#cp /tmp/agent_C[0-9]+/change_[0-9]/demo.rs tests/demo.rs && ##')
    out=$S/reconfirm.txt; echo "HEAD $(git -C /repo rev-parse --short HEAD)" > $out
    if ! git apply $S/patch.diff 2>>$out; then echo "patch_applies=no" >> $out; continue; fi
    echo "patch_applies=yes" >> $out
    if cargo test --offline >/dev/null 2>&1; then echo "suite_with_patch=pass" >> $out; else echo "suite_with_patch=FAIL" >> $out; fi
    cp $S/demo.rs tests/demo.rs
    if (eval "$cmd") >/dev/null 2>&1; then echo "demo_with_patch=pass(UNEXPECTED)" >> $out; else echo "demo_with_patch=fail(expected)" >> $out; fi
    git checkout -q -- .
    if (eval "$cmd") >/dev/null 2>&1; then echo "demo_without_patch=pass(expected)" >> $out; else echo "demo_without_patch=FAIL(UNEXPECTED)" >> $out; fi
    rm -f tests/demo.rs
  done
  git -C /repo worktree remove --force $WT
}
n=${#ids[@]}; a=$((n/3)); b=$((2*n/3))
work 1 "${ids[@]:0:$a}" & work 2 "${ids[@]:$a:$((b-a))}" & work 3 "${ids[@]:$b}" & wait
grep -L "demo_with_patch=fail" /verif/seeded/*/reconfirm.txt; echo RECONFIRM-DONE
