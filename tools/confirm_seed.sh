#!/bin/bash
# usage: confirm_seed.sh <PID> <n> <seed-id>   -- confirms a sub-agent's change in its scratch worktree and files it under /verif/seeded/<seed-id>
# (existing suite passes with the patch; demo fails with the patch and passes without)
set -u
PID=$1; N=$2; SID=$3
WT=${WT:-/tmp/wt_$PID}; SRC=${SRC:-/tmp/agent_$PID/change_$N}; OUT=/verif/seeded/$SID
[ -f $SRC/patch.diff ] || { echo "no patch"; exit 2; }
cd $WT && git checkout -q -- . && rm -f tests/demo.rs
DEMO_CMD=$(python3 -c "import json;print(json.load(open('$SRC/meta.json'))['demo_cmd'])")
DEMO_CMD=${DEMO_CMD#cd $WT && }
log=$(mktemp)
res() { echo "$1" | tee -a $log; }
git apply $SRC/patch.diff || { res "patch does not apply"; exit 1; }
res "== existing suite with patch (cargo test --offline):"
if cargo test --offline >$log.t1 2>&1; then res "suite_with_patch=pass"; else res "suite_with_patch=FAIL"; tail -20 $log.t1; fi
res "== all-features build with patch:"
if cargo check --offline --no-default-features --features "batteries_included,v1_local,v2_local,v3_local,v4_local,v1_public,v2_public,v4_public" >$log.t2 2>&1 && cargo check --offline --no-default-features --features "batteries_included,v3_public,v3_local" >>$log.t2 2>&1; then res "allfeatures_build=pass"; else res "allfeatures_build=FAIL"; tail -20 $log.t2; fi
cp $SRC/demo.rs tests/demo.rs
res "== demo with patch: $DEMO_CMD"
if (eval "$DEMO_CMD") >$log.t3 2>&1; then res "demo_with_patch=pass(UNEXPECTED)"; else res "demo_with_patch=fail(expected)"; fi
git checkout -q -- .
res "== demo without patch:"
if (eval "$DEMO_CMD") >$log.t4 2>&1; then res "demo_without_patch=pass(expected)"; else res "demo_without_patch=FAIL(UNEXPECTED)"; tail -20 $log.t4; fi
rm -f tests/demo.rs
ok=0
grep -q "suite_with_patch=pass" $log && grep -q "allfeatures_build=pass" $log && grep -q "demo_with_patch=fail" $log && grep -q "demo_without_patch=pass" $log && ok=1
if [ $ok = 1 ]; then
  mkdir -p $OUT && cp $SRC/patch.diff $SRC/demo.rs $OUT/
  python3 - <<PY
import json
m=json.load(open('$SRC/meta.json'))
m['confirmed_by_main_session']=open('$log').read()
m['seed_id']='$SID'
json.dump(m,open('$OUT/meta.json','w'),indent=1)
PY
  echo "CONFIRMED $SID"
else
  echo "NOT-CONFIRMED $SID"
fi
