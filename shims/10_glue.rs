pub mod glue {
use vstd::prelude::*;
pub use vstd::string::StringSliceAdditionalSpecFns;
pub use vstd::std_specs::iter::IteratorSpec;
verus!{
// ---- AsRef: trait-level spec through one uninterpreted function (DESIGN §9) ---------------
pub uninterp spec fn as_ref_spec<'a, S: core::marker::PointeeSized, T: core::marker::PointeeSized>(s: &'a S) -> &'a T;
#[verifier::external_trait_specification]
pub trait ExAsRef<T: core::marker::PointeeSized>: core::marker::PointeeSized {
    type ExternalTraitSpecificationFor: core::convert::AsRef<T> + core::marker::PointeeSized;
    fn as_ref(&self) -> (r: &T) ensures r == as_ref_spec::<Self, T>(self);
}
// std impls of AsRef (assumed: these are what std does)
pub broadcast axiom fn ax_asref_vec_slice<T>(v: &Vec<T>)
    ensures (#[trigger] as_ref_spec::<Vec<T>, [T]>(v))@ == v@;
pub broadcast axiom fn ax_asref_vec_vec<T>(v: &Vec<T>)
    ensures (#[trigger] as_ref_spec::<Vec<T>, Vec<T>>(v)) == v;
pub broadcast axiom fn ax_asref_slice_slice<T>(v: &[T])
    ensures (#[trigger] as_ref_spec::<[T], [T]>(v)) == v;
pub broadcast axiom fn ax_asref_array_slice<T, const N: usize>(v: &[T; N])
    ensures (#[trigger] as_ref_spec::<[T; N], [T]>(v))@ == v@;
pub broadcast axiom fn ax_asref_str_bytes(v: &str)
    ensures (#[trigger] as_ref_spec::<str, [u8]>(v))@ == v.spec_bytes();
pub broadcast axiom fn ax_asref_str_str(v: &str)
    ensures (#[trigger] as_ref_spec::<str, str>(v)) == v;
pub broadcast axiom fn ax_asref_string_str(v: &String)
    ensures (#[trigger] as_ref_spec::<String, str>(v))@ == v@;
pub broadcast axiom fn ax_asref_string_bytes(v: &String)
    ensures (#[trigger] as_ref_spec::<String, [u8]>(v))@ == vstd::utf8::encode_utf8(v@);
pub broadcast axiom fn ax_asref_ref<S: ?Sized, T: ?Sized>(v: &&S)
    ensures #[trigger] as_ref_spec::<&S, T>(v) == as_ref_spec::<S, T>(*v);
pub broadcast group group_asref_std {
    ax_asref_vec_slice, ax_asref_vec_vec, ax_asref_slice_slice, ax_asref_array_slice, ax_asref_str_bytes, ax_asref_str_str,
    ax_asref_string_str, ax_asref_string_bytes, ax_asref_ref
}
pub broadcast group group_glue { group_asref_std, lemma_empty_strlit, lemma_dot_strlit, crate::serde_json::ax_json_roundtrip, crate::serde::ax_json_str, crate::serde::ax_json_string, crate::time::ax_rfc3339_text_parses, ax_str_key_removed, ax_str_key_contains, ax_str_key_maps, lemma_utf8_valid, lemma_utf8_inj, ax_into_identity_obeys, ax_into_some_obeys, ax_asref_box, ax_into_identity, ax_into_some, ax_string_view_inj, ax_elem_eq_str, ax_into_map_hashmap, ax_string_key_model, vstd::std_specs::hash::group_hash_axioms, crate::p384::ax_asref_encoded_point, crate::generic_array::ax_asref_ga, ax_str_bytes_inj, ax_iter_items_vec, ax_iter_items_copied_slice }

// ---- external std types ---------------------------------------------------------------------
#[verifier::external_type_specification]
#[verifier::external_body]
pub struct ExTryFromSliceError(core::array::TryFromSliceError);
#[verifier::external_type_specification]
#[verifier::external_body]
pub struct ExUtf8Error(core::str::Utf8Error);
#[verifier::external_type_specification]
#[verifier::external_body]
pub struct ExFromUtf8Error(std::string::FromUtf8Error);

// ---- UTF-8 (vstd's own model: valid_utf8 / decode_utf8 / str::spec_bytes) ---------------------
pub assume_specification [core::str::from_utf8] (b: &[u8]) -> (r: Result<&str, core::str::Utf8Error>)
    ensures vstd::utf8::valid_utf8(b@) <==> r is Ok,
            r is Ok ==> r->Ok_0.spec_bytes() == b@;
pub assume_specification [std::string::String::from_utf8] (b: Vec<u8>) -> (r: Result<String, std::string::FromUtf8Error>)
    ensures vstd::utf8::valid_utf8(b@) <==> r is Ok,
            r is Ok ==> vstd::utf8::encode_utf8(r->Ok_0@) == b@;
pub assume_specification<T: Clone> [<[T]>::to_vec] (s: &[T]) -> (r: Vec<T>)
    ensures r@ == s@;
// ---- text transformations: deliberately WEAK specifications (result is some uninterpreted function of the input).  The repository
// does not use them; they are here so that a change which starts to trim / re-case text stays inside the verifier and refutes the
// "kept verbatim" obligations directly instead of pushing the function outside its reach.
pub uninterp spec fn str_trim(s: Seq<char>) -> Seq<char>;
pub uninterp spec fn str_trim_start(s: Seq<char>) -> Seq<char>;
pub uninterp spec fn str_trim_end(s: Seq<char>) -> Seq<char>;
pub uninterp spec fn str_lower(s: Seq<char>) -> Seq<char>;
pub uninterp spec fn str_upper(s: Seq<char>) -> Seq<char>;
pub uninterp spec fn str_ascii_lower(s: Seq<char>) -> Seq<char>;
pub uninterp spec fn str_ascii_upper(s: Seq<char>) -> Seq<char>;
// u64::to_le_bytes has a const-expression array length in its signature (no assume_specification possible): R-lebytes calls this wrapper
#[verifier::external_body]
pub fn u64_to_le_bytes(x: u64) -> (r: [u8; 8])
    ensures forall|i: int| 0 <= i < 8 ==> r@[i] == #[trigger] (((x >> ((8 * i) as u64)) & 0xff) as u8)
{ x.to_le_bytes() }
pub assume_specification<T: Default> [core::mem::take::<T>] (dest: &mut T) -> (r: T) ensures r == *old(dest);
pub assume_specification<T> [core::mem::replace::<T>] (dest: &mut T, src: T) -> (r: T) ensures r == *old(dest), *final(dest) == src;
pub uninterp spec fn str_eq_ignore_ascii_case(a: Seq<char>, b: Seq<char>) -> bool;
pub assume_specification [str::eq_ignore_ascii_case] (a: &str, b: &str) -> (r: bool) ensures r == str_eq_ignore_ascii_case(a@, b@), a@ == b@ ==> r;
pub assume_specification [String::as_bytes] (s: &String) -> (r: &[u8]) ensures r@ == vstd::utf8::encode_utf8(s@);
pub assume_specification [str::trim] (s: &str) -> (r: &str) ensures r@ == str_trim(s@), r@.len() <= s@.len();
pub assume_specification [str::trim_start] (s: &str) -> (r: &str) ensures r@ == str_trim_start(s@), r@.len() <= s@.len();
pub assume_specification [str::trim_end] (s: &str) -> (r: &str) ensures r@ == str_trim_end(s@), r@.len() <= s@.len();
pub assume_specification [str::to_lowercase] (s: &str) -> (r: String) ensures r@ == str_lower(s@);
pub assume_specification [str::to_uppercase] (s: &str) -> (r: String) ensures r@ == str_upper(s@);
pub assume_specification [str::to_ascii_lowercase] (s: &str) -> (r: String) ensures r@ == str_ascii_lower(s@), r@.len() == s@.len();
pub assume_specification [str::to_ascii_uppercase] (s: &str) -> (r: String) ensures r@ == str_ascii_upper(s@), r@.len() == s@.len();
pub broadcast proof fn ax_str_bytes_inj(a: &str, b: &str)
    ensures (#[trigger] a.spec_bytes() == #[trigger] b.spec_bytes()) ==> a@ == b@
{ vstd::utf8::encode_utf8_decode_utf8(a@); vstd::utf8::encode_utf8_decode_utf8(b@); }
// facts about the literals "" and "." that harmless rewrites of the code tend to need (proved)
pub broadcast proof fn lemma_empty_strlit() ensures (#[trigger] ""@).len() == 0, "".spec_bytes().len() == 0 { reveal_strlit(""); }
pub broadcast proof fn lemma_dot_strlit() ensures #[trigger] "."@ == seq!['.'] { reveal_strlit("."); assert("."@ =~= seq!['.']); }
// proved from vstd's UTF-8 library (not assumptions)
pub broadcast proof fn lemma_utf8_valid(s: Seq<char>) ensures vstd::utf8::valid_utf8(#[trigger] vstd::utf8::encode_utf8(s)) { vstd::utf8::encode_utf8_valid_utf8(s); }
pub broadcast proof fn lemma_utf8_inj(a: Seq<char>, b: Seq<char>)
    ensures (#[trigger] vstd::utf8::encode_utf8(a) == #[trigger] vstd::utf8::encode_utf8(b)) ==> a == b
{ vstd::utf8::encode_utf8_decode_utf8(a); vstd::utf8::encode_utf8_decode_utf8(b); }

pub fn runtime_assert(b: bool) requires b {}
// ---- more std functions the repo calls (assumed: what std does) -------------------------------
pub assume_specification<T, E> [core::result::Result::<T, E>::unwrap_or] (res: Result<T, E>, default: T) -> (r: T)
    ensures r == (match res { Ok(t) => t, Err(_) => default });
pub uninterp spec fn elem_eq<T>(a: &T, b: &T) -> bool;      // PartialEq::eq of the element type
pub broadcast axiom fn ax_elem_eq_str<'a, 'b>(a: &&'a str, b: &&'b str)
    ensures #[trigger] elem_eq::<&str>(a, b) == ((**a)@ == (**b)@);
pub assume_specification<T: PartialEq> [<[T]>::contains] (s: &[T], x: &T) -> (r: bool)
    ensures r <==> exists|i: int| 0 <= i < s@.len() && #[trigger] elem_eq::<T>(&s@[i], x);
pub uninterp spec fn into_map<K, V, I: IntoIterator<Item = (K, V)>>(i: I) -> vstd::map::Map<K, V>;
pub broadcast axiom fn ax_into_map_hashmap<K, V, S>(h: std::collections::HashMap<K, V, S>)
    ensures #[trigger] into_map::<K, V, std::collections::HashMap<K, V, S>>(h) == h@;
pub assume_specification<K: Eq + core::hash::Hash, V, S: core::hash::BuildHasher, A: std::alloc::Allocator, I: IntoIterator<Item = (K, V)>>
    [<std::collections::HashMap<K, V, S, A> as Extend<(K, V)>>::extend] (m: &mut std::collections::HashMap<K, V, S, A>, iter: I)
    ensures final(m)@ == old(m)@.union_prefer_right(into_map::<K, V, I>(iter));
// std conversions used for the `impl Into<Option<Footer>> + Copy` parameters (T -> T, T -> Option<T>; Option<T> -> Option<T> is the first)
pub broadcast axiom fn ax_into_identity<T>(t: T)
    ensures #[trigger] <T as vstd::std_specs::convert::IntoSpec<T>>::into_spec(t) == t, <T as vstd::std_specs::convert::IntoSpec<T>>::obeys_into_spec();
pub broadcast axiom fn ax_into_some<T>(t: T)
    ensures #[trigger] <T as vstd::std_specs::convert::IntoSpec<Option<T>>>::into_spec(t) == Some(t), <T as vstd::std_specs::convert::IntoSpec<Option<T>>>::obeys_into_spec();
pub broadcast axiom fn ax_into_identity_obeys<T>() ensures #[trigger] <T as vstd::std_specs::convert::IntoSpec<T>>::obeys_into_spec();
pub broadcast axiom fn ax_into_some_obeys<T>() ensures #[trigger] <T as vstd::std_specs::convert::IntoSpec<Option<T>>>::obeys_into_spec();
pub broadcast axiom fn ax_asref_box<T: ?Sized>(b: &Box<T>) ensures #[trigger] as_ref_spec::<Box<T>, T>(b) == &**b;
// two Strings with the same contents are the same value
pub broadcast axiom fn ax_string_view_inj(a: String, b: String)
    ensures (#[trigger] a@ == #[trigger] b@) ==> a == b;
// HashMap<String, V> looked up / removed through &str (Borrow<str> for String): same contents = same key
pub broadcast axiom fn ax_str_key_removed<V>(m1: Map<String, V>, m2: Map<String, V>, k: &str)
    ensures #[trigger] vstd::std_specs::hash::borrowed_key_removed(m1, m2, k) <==>
        ((forall|kk: String| #[trigger] m2.contains_key(kk) <==> (m1.contains_key(kk) && kk@ != k@)) && (forall|kk: String| #[trigger] m2.contains_key(kk) ==> m2[kk] == m1[kk]));
pub broadcast axiom fn ax_str_key_contains<V>(m: Map<String, V>, k: &str)
    ensures #[trigger] vstd::std_specs::hash::contains_borrowed_key(m, k) <==> (exists|kk: String| #[trigger] m.contains_key(kk) && kk@ == k@);
pub broadcast axiom fn ax_str_key_maps<V>(m: Map<String, V>, k: &str, v: V)
    ensures #[trigger] vstd::std_specs::hash::maps_borrowed_key_to_value(m, k, v) <==> (exists|kk: String| #[trigger] m.contains_key(kk) && kk@ == k@ && m[kk] == v);
// String's Hash/Eq agree with equality of contents (vstd ships the key model only for integer/bool keys)
pub broadcast axiom fn ax_string_key_model() ensures #[trigger] vstd::std_specs::hash::obeys_key_model::<String>();
// <&[T; N]>::try_from(&[T]): Ok exactly when the slice has N elements
pub assume_specification<'a, T, const N: usize> [<&'a [T; N] as TryFrom<&'a [T]>>::try_from] (s: &'a [T]) -> (r: Result<&'a [T; N], core::array::TryFromSliceError>)
    ensures s@.len() == N <==> r is Ok, r is Ok ==> r->Ok_0@ == s@;


// ---- str::split(c).collect() -----------------------------------------------------------------
// str::split(c): DEFINED (segments between occurrences of c), with its lemmas proved below; only the link to the exec function is assumed
pub open spec fn first_idx(s: Seq<char>, c: char) -> int decreases s.len() {
    if s.len() == 0 { 0 } else if s[0] == c { 0 } else { 1 + first_idx(s.skip(1), c) }
}
pub proof fn lemma_first_idx(s: Seq<char>, c: char)
    ensures 0 <= first_idx(s, c) <= s.len(),
            first_idx(s, c) < s.len() ==> s[first_idx(s, c)] == c,
            forall|j: int| 0 <= j < first_idx(s, c) ==> s[j] != c,
    decreases s.len()
{
    if s.len() != 0 && s[0] != c {
        lemma_first_idx(s.skip(1), c);
        assert forall|j: int| 0 <= j < first_idx(s, c) implies s[j] != c by { if j > 0 { assert(s.skip(1)[j - 1] == s[j]); } }
    }
}
pub open spec fn split_spec(s: Seq<char>, c: char) -> Seq<Seq<char>> decreases s.len() via split_dec {
    let i = first_idx(s, c);
    if i >= s.len() { seq![s] } else { seq![s.take(i)] + split_spec(s.skip(i + 1), c) }
}
#[via_fn]
proof fn split_dec(s: Seq<char>, c: char) { lemma_first_idx(s, c); }
pub proof fn lemma_first_idx_prefix(a: Seq<char>, c: char, r: Seq<char>)
    requires !a.contains(c)
    ensures first_idx(a + seq![c] + r, c) == a.len(), first_idx(a, c) == a.len()
    decreases a.len()
{
    let s = a + seq![c] + r;
    if a.len() == 0 { assert(s[0] == c); }
    else {
        assert(a[0] != c) by { if a[0] == c { assert(a.contains(c)); } }
        assert(s[0] == a[0]);
        assert(!a.skip(1).contains(c)) by { if a.skip(1).contains(c) { let j = choose|j: int| 0 <= j < a.skip(1).len() && a.skip(1)[j] == c; assert(a[j + 1] == c); assert(a.contains(c)); } }
        lemma_first_idx_prefix(a.skip(1), c, r);
        assert(s.skip(1) =~= a.skip(1) + seq![c] + r);
    }
}
pub proof fn lemma_split_cons(a: Seq<char>, c: char, r: Seq<char>)
    requires !a.contains(c)
    ensures split_spec(a + seq![c] + r, c) == seq![a] + split_spec(r, c), split_spec(a, c) == seq![a]
{
    lemma_first_idx_prefix(a, c, r);
    let s = a + seq![c] + r;
    assert(s.take(a.len() as int) =~= a);
    assert(s.skip(a.len() as int + 1) =~= r);
}

#[verifier::external_body]
pub fn str_split_char<'a>(s: &'a str, c: char) -> (r: Vec<&'a str>)
    ensures r@.len() >= 1,
            r@.len() == split_spec(s@, c).len(),
            forall|i: int| 0 <= i < r@.len() ==> (#[trigger] r@[i])@ == split_spec(s@, c)[i],
{ s.split(c).collect::<Vec<_>>() }

// ---- Vec::extend (iterator contents through an uninterpreted item sequence) -------------------
pub uninterp spec fn iter_items<I: IntoIterator>(i: I) -> Seq<I::Item>;
pub uninterp spec fn iter_items_copied<'a, T: 'a + Copy, I: IntoIterator<Item = &'a T>>(i: I) -> Seq<T>;
pub assume_specification<T, A: std::alloc::Allocator, I: IntoIterator<Item = T>> [<std::vec::Vec<T, A> as std::iter::Extend<T>>::extend] (v: &mut Vec<T, A>, other: I)
    ensures final(v)@ == old(v)@ + iter_items(other);
pub assume_specification<'a, T: Copy + 'a, A: std::alloc::Allocator, I: IntoIterator<Item = &'a T>> [<std::vec::Vec<T, A> as std::iter::Extend<&'a T>>::extend] (v: &mut Vec<T, A>, other: I)
    ensures final(v)@ == old(v)@ + iter_items_copied(other);
pub broadcast axiom fn ax_iter_items_vec<T>(v: Vec<T>)
    ensures #[trigger] iter_items::<Vec<T>>(v) == v@;
pub broadcast axiom fn ax_iter_items_copied_slice<'a, T: Copy>(it: core::slice::Iter<'a, T>)
    ensures #[trigger] iter_items_copied::<T, core::slice::Iter<'a, T>>(it) == it.remaining().map_values(|x: &T| *x);

// ---- Display through a spec trait (core::fmt is outside Verus) --------------------------------
pub trait DispSpec { spec fn disp_spec(&self) -> Seq<char>; }
impl DispSpec for str { open spec fn disp_spec(&self) -> Seq<char> { self@ } }
impl<T: DispSpec + ?Sized> DispSpec for &T { open spec fn disp_spec(&self) -> Seq<char> { (**self).disp_spec() } }
impl DispSpec for String { open spec fn disp_spec(&self) -> Seq<char> { self@ } }

#[verifier::external_body]
pub fn str_push_display<T: DispSpec + std::fmt::Display + ?Sized>(s: String, t: &T) -> (r: String)
    ensures r@ == s@ + t.disp_spec()
{ let mut s = s; use std::fmt::Write; write!(s, "{}", t).unwrap(); s }
#[verifier::external_body]
pub fn str_push_lit(s: String, t: &str) -> (r: String)
    ensures r@ == s@ + t@
{ let mut s = s; s.push_str(t); s }
}
}
