// shim_prelude: the names every extracted module sees (external-crate shims + glue functions).
// Everything in /verif/shims is an ASSUMED contract on a dependency or on std (DESIGN.md §2.2); each
// `external_body`, `assume_specification` and `axiom` here is listed in evidence under trusted_base.
pub mod shim_prelude {
    pub use crate::{base64, ring, hex, generic_array, digest, blake2, chacha20, ed25519_dalek, p384, sha2, hmac, aes, chacha20poly1305, serde_json, serde, erased_serde, time, iso8601};
    pub use crate::glue::*;
    pub use crate::cryptospec;
    pub use crate::pspec;
}
