pub mod chacha20 {
    use vstd::prelude::*;
    use crate::generic_array::*;
    use crate::cryptospec::*;
    verus!{
    pub type Key = GenericArray<U32>;
    pub type XNonce = GenericArray<U24>;
    #[verifier::external_body]
    pub struct XChaCha20 { _x: u8 }
    impl XChaCha20 {
        pub uninterp spec fn key(&self) -> Seq<u8>;
        pub uninterp spec fn nonce(&self) -> Seq<u8>;
        pub uninterp spec fn pos(&self) -> nat;
    }
    pub mod cipher {
        use vstd::prelude::*;
        use super::*;
        pub trait KeyIvInit: Sized {
            spec fn kk(&self) -> Seq<u8>; spec fn nn(&self) -> Seq<u8>; spec fn pp(&self) -> nat;
            fn new(key: &Key, iv: &XNonce) -> (r: Self) ensures r.kk() == key@, r.nn() == iv@, r.pp() == 0; }
        pub trait StreamCipher {
            spec fn sk(&self) -> Seq<u8>; spec fn sn(&self) -> Seq<u8>; spec fn sp(&self) -> nat;
            fn apply_keystream(&mut self, buf: &mut [u8])
                requires old(self).sp() == 0
                ensures final(buf)@ == xchacha20_xor(old(self).sk(), old(self).sn(), old(buf)@), final(self).sp() == old(buf)@.len();
        }
        impl KeyIvInit for XChaCha20 {
            open spec fn kk(&self) -> Seq<u8> { self.key() } open spec fn nn(&self) -> Seq<u8> { self.nonce() } open spec fn pp(&self) -> nat { self.pos() }
            #[verifier::external_body]
            fn new(key: &Key, iv: &XNonce) -> (r: Self) { unimplemented!() }
        }
        impl StreamCipher for XChaCha20 {
            open spec fn sk(&self) -> Seq<u8> { self.key() } open spec fn sn(&self) -> Seq<u8> { self.nonce() } open spec fn sp(&self) -> nat { self.pos() }
            #[verifier::external_body]
            fn apply_keystream(&mut self, buf: &mut [u8]) { unimplemented!() }
        }
    }
    }
}

pub mod aes {
    use vstd::prelude::*;
    use crate::generic_array::*;
    use crate::cryptospec::*;
    verus!{
    #[verifier::external_body]
    pub struct Aes256Ctr { _x: u8 }
    impl Aes256Ctr {
        pub uninterp spec fn key(&self) -> Seq<u8>;
        pub uninterp spec fn iv(&self) -> Seq<u8>;
        pub uninterp spec fn pos(&self) -> nat;
    }
    pub mod cipher {
        use vstd::prelude::*;
        use super::*;
        pub mod generic_array { pub use crate::generic_array::GenericArray; }
        pub trait NewCipher: Sized {
            spec fn kk(&self) -> Seq<u8>; spec fn nn(&self) -> Seq<u8>; spec fn pp(&self) -> nat;
            fn new(key: &GenericArray<U32>, nonce: &GenericArray<U16>) -> (r: Self) ensures r.kk() == key@, r.nn() == nonce@, r.pp() == 0; }
        pub trait StreamCipher {
            spec fn sk(&self) -> Seq<u8>; spec fn sn(&self) -> Seq<u8>; spec fn sp(&self) -> nat;
            fn apply_keystream(&mut self, buf: &mut [u8])
                requires old(self).sp() == 0
                ensures final(buf)@ == aes256_ctr_xor(old(self).sk(), old(self).sn(), old(buf)@), final(self).sp() == old(buf)@.len();
        }
        impl NewCipher for Aes256Ctr {
            open spec fn kk(&self) -> Seq<u8> { self.key() } open spec fn nn(&self) -> Seq<u8> { self.iv() } open spec fn pp(&self) -> nat { self.pos() }
            #[verifier::external_body]
            fn new(key: &GenericArray<U32>, nonce: &GenericArray<U16>) -> (r: Self) { unimplemented!() }
        }
        impl StreamCipher for Aes256Ctr {
            open spec fn sk(&self) -> Seq<u8> { self.key() } open spec fn sn(&self) -> Seq<u8> { self.iv() } open spec fn sp(&self) -> nat { self.pos() }
            #[verifier::external_body]
            fn apply_keystream(&mut self, buf: &mut [u8]) { unimplemented!() }
        }
    }
    }
}
pub mod chacha20poly1305 {
    use vstd::prelude::*;
    use crate::generic_array::*;
    use crate::cryptospec::*;
    verus!{
    pub type XNonce = GenericArray<U24>;
    #[derive(Debug)] pub struct Error;
    #[verifier::external_body]
    pub struct XChaCha20Poly1305 { _x: u8 }
    impl XChaCha20Poly1305 { pub uninterp spec fn key(&self) -> Seq<u8>; }
    pub trait KeyInit: Sized {
        spec fn kkey(&self) -> Seq<u8>;
        fn new_from_slice(key: &[u8]) -> (r: Result<Self, crate::digest::InvalidLength>)
            ensures key@.len() == 32 <==> r is Ok, r is Ok ==> r->Ok_0.kkey() == key@;
    }
    impl KeyInit for XChaCha20Poly1305 {
        open spec fn kkey(&self) -> Seq<u8> { self.key() }
        #[verifier::external_body]
        fn new_from_slice(key: &[u8]) -> (r: Result<Self, crate::digest::InvalidLength>) { unimplemented!() }
    }
    pub mod aead {
        use vstd::prelude::*;
        use super::*;
        pub struct Payload<'msg, 'aad> { pub msg: &'msg [u8], pub aad: &'aad [u8] }
        pub trait Aead {
            spec fn akey(&self) -> Seq<u8>;
            fn encrypt<'msg, 'aad>(&self, nonce: &XNonce, plaintext: Payload<'msg, 'aad>) -> (r: Result<Vec<u8>, Error>)
                ensures r is Ok ==> r->Ok_0@ == xchacha20poly1305_seal(self.akey(), nonce@, plaintext.aad@, plaintext.msg@),
                        plaintext.msg@.len() + 16 <= usize::MAX ==> r is Ok;
            fn decrypt<'msg, 'aad>(&self, nonce: &XNonce, ciphertext: Payload<'msg, 'aad>) -> (r: Result<Vec<u8>, Error>)
                ensures match xchacha20poly1305_open(self.akey(), nonce@, ciphertext.aad@, ciphertext.msg@) {
                    Some(m) => r is Ok && r->Ok_0@ == m, None => r is Err };
        }
        impl Aead for XChaCha20Poly1305 {
            open spec fn akey(&self) -> Seq<u8> { self.key() }
            #[verifier::external_body]
            fn encrypt<'msg, 'aad>(&self, nonce: &XNonce, plaintext: Payload<'msg, 'aad>) -> (r: Result<Vec<u8>, Error>) { unimplemented!() }
            #[verifier::external_body]
            fn decrypt<'msg, 'aad>(&self, nonce: &XNonce, ciphertext: Payload<'msg, 'aad>) -> (r: Result<Vec<u8>, Error>) { unimplemented!() }
        }
    }
    }
}
