pub mod chacha20 {
    use vstd::prelude::*;
    use crate::generic_array::*;
    use crate::cryptospec::*;
    verus!{
    pub type Key = GenericArray<U32>;
    pub type XNonce = GenericArray<U24>;
    #[verifier::external_body]
    pub struct XChaCha20 { _x: u8 }
    impl XChaCha20 {
        pub uninterp spec fn key(&self) -> Seq<u8>;
        pub uninterp spec fn nonce(&self) -> Seq<u8>;
        pub uninterp spec fn pos(&self) -> nat;
    }
    pub mod cipher {
        use vstd::prelude::*;
        use super::*;
        pub trait KeyIvInit: Sized {
            spec fn kk(&self) -> Seq<u8>; spec fn nn(&self) -> Seq<u8>; spec fn pp(&self) -> nat;
            fn new(key: &Key, iv: &XNonce) -> (r: Self) ensures r.kk() == key@, r.nn() == iv@, r.pp() == 0; }
        pub trait StreamCipher {
            spec fn sk(&self) -> Seq<u8>; spec fn sn(&self) -> Seq<u8>; spec fn sp(&self) -> nat;
            fn apply_keystream(&mut self, buf: &mut [u8])
                requires old(self).sp() == 0
                ensures final(buf)@ == xchacha20_xor(old(self).sk(), old(self).sn(), old(buf)@), final(self).sp() == old(buf)@.len();
        }
        impl KeyIvInit for XChaCha20 {
            open spec fn kk(&self) -> Seq<u8> { self.key() } open spec fn nn(&self) -> Seq<u8> { self.nonce() } open spec fn pp(&self) -> nat { self.pos() }
            #[verifier::external_body]
            fn new(key: &Key, iv: &XNonce) -> (r: Self) { unimplemented!() }
        }
        impl StreamCipher for XChaCha20 {
            open spec fn sk(&self) -> Seq<u8> { self.key() } open spec fn sn(&self) -> Seq<u8> { self.nonce() } open spec fn sp(&self) -> nat { self.pos() }
            #[verifier::external_body]
            fn apply_keystream(&mut self, buf: &mut [u8]) { unimplemented!() }
        }
    }
    }
}
