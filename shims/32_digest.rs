pub mod generic_array {
    use vstd::prelude::*;
    verus!{
    pub trait ArrayLength { spec fn n() -> nat; }
    pub struct U16; pub struct U24; pub struct U32; pub struct U48; pub struct U56; pub struct U96;
    impl ArrayLength for U16 { open spec fn n() -> nat { 16 } }
    impl ArrayLength for U24 { open spec fn n() -> nat { 24 } }
    impl ArrayLength for U32 { open spec fn n() -> nat { 32 } }
    impl ArrayLength for U48 { open spec fn n() -> nat { 48 } }
    impl ArrayLength for U56 { open spec fn n() -> nat { 56 } }
    impl ArrayLength for U96 { open spec fn n() -> nat { 96 } }
    #[verifier::external_body]
    #[verifier::reject_recursive_types(N)]
    pub struct GenericArray<N: ArrayLength> { _n: core::marker::PhantomData<N>, v: Vec<u8> }
    impl<N: ArrayLength> View for GenericArray<N> { type V = Seq<u8>; uninterp spec fn view(&self) -> Seq<u8>; }
    pub broadcast axiom fn ax_ga_len<N: ArrayLength>(g: &GenericArray<N>)
        ensures (#[trigger] g@).len() == N::n();
    impl<N: ArrayLength> GenericArray<N> {
        #[verifier::external_body]
        pub fn from_slice(s: &[u8]) -> (r: &GenericArray<N>)
            requires s@.len() == N::n()
            ensures r@ == s@
        { unimplemented!() }
        #[verifier::external_body]
        pub fn to_vec(&self) -> (r: Vec<u8>) ensures r@ == self@, self@.len() == N::n() { unimplemented!() }
    }
    impl<'a> From<&'a mut [u8; 24]> for &'a mut GenericArray<U24> {
        #[verifier::external_body]
        fn from(a: &'a mut [u8; 24]) -> (r: &'a mut GenericArray<U24>) ensures r@ == old(a)@, final(a)@ == final(r)@ { unimplemented!() }
    }
    impl<'a> vstd::std_specs::convert::FromSpecImpl<&'a mut [u8; 24]> for &'a mut GenericArray<U24> {
        open spec fn obeys_from_spec() -> bool { false } uninterp spec fn from_spec(v: &'a mut [u8; 24]) -> Self;
    }
    impl<N: ArrayLength> AsRef<[u8]> for GenericArray<N> {
        #[verifier::external_body]
        fn as_ref(&self) -> (r: &[u8]) ensures r@ == self@ { unimplemented!() }
    }
    pub broadcast axiom fn ax_asref_ga<N: ArrayLength>(g: &GenericArray<N>)
        ensures (#[trigger] crate::glue::as_ref_spec::<GenericArray<N>, [u8]>(g))@ == g@;
    impl<N: ArrayLength> core::ops::Deref for GenericArray<N> {
        type Target = [u8];
        #[verifier::external_body]
        fn deref(&self) -> (r: &[u8]) ensures r@ == self@ { unimplemented!() }
    }
    }
}
pub mod digest {
    use vstd::prelude::*;
    use crate::generic_array::*;
    verus!{
    #[derive(Debug)] pub struct InvalidLength;
    pub mod consts { pub use crate::generic_array::{U16,U24,U32,U48,U56,U96}; }
    // State of a keyed MAC under construction: (key, bytes absorbed so far)
    pub trait MacState: Sized {
        spec fn mkey(&self) -> Seq<u8>;
        spec fn mbuf(&self) -> Seq<u8>;
        spec fn mout(key: Seq<u8>, buf: Seq<u8>) -> Seq<u8>;
        spec fn key_ok(n: nat) -> bool;
    }
    pub trait KeyInit: MacState {
        fn new_from_slice(key: &[u8]) -> (r: Result<Self, InvalidLength>)
            ensures Self::key_ok(key@.len()) <==> r is Ok,
                    r is Ok ==> r->Ok_0.mkey() == key@ && r->Ok_0.mbuf() == Seq::<u8>::empty();
    }
    pub trait Update: MacState {
        fn update(&mut self, data: &[u8])
            ensures final(self).mkey() == old(self).mkey(), final(self).mbuf() == old(self).mbuf() + data@;
    }
    pub trait FixedOutput: MacState {
        type N: ArrayLength;
        fn finalize_fixed(self) -> (r: GenericArray<Self::N>) ensures r@ == Self::mout(self.mkey(), self.mbuf());
        fn finalize_into(self, out: &mut GenericArray<Self::N>) ensures final(out)@ == Self::mout(self.mkey(), self.mbuf());
    }
    // digest::Mac (new_from_slice / update / finalize), as used by hmac and by v2.local's keyed BLAKE2b
    pub trait Mac: MacState {
        type N: ArrayLength;
        fn new_from_slice(key: &[u8]) -> (r: Result<Self, InvalidLength>)
            ensures Self::key_ok(key@.len()) <==> r is Ok,
                    r is Ok ==> r->Ok_0.mkey() == key@ && r->Ok_0.mbuf() == Seq::<u8>::empty();
        fn update(&mut self, data: &[u8])
            ensures final(self).mkey() == old(self).mkey(), final(self).mbuf() == old(self).mbuf() + data@;
        fn finalize(self) -> (r: CtOutput<Self::N>) ensures r@ == Self::mout(self.mkey(), self.mbuf());
    }
    #[verifier::external_body]
    #[verifier::reject_recursive_types(N)]
    pub struct CtOutput<N: ArrayLength> { _n: core::marker::PhantomData<N> }
    impl<N: ArrayLength> View for CtOutput<N> { type V = Seq<u8>; uninterp spec fn view(&self) -> Seq<u8>; }
    impl<N: ArrayLength> CtOutput<N> {
        #[verifier::external_body]
        pub fn into_bytes(self) -> (r: GenericArray<N>) ensures r@ == self@ { unimplemented!() }
    }
    }
}
pub mod blake2 {
    use vstd::prelude::*;
    use crate::generic_array::*;
    use crate::cryptospec::*;
    pub use crate::digest;
    verus!{
    #[verifier::external_body]
    #[verifier::reject_recursive_types(N)]
    pub struct Blake2bMac<N: ArrayLength> { _n: core::marker::PhantomData<N> }
    impl<N: ArrayLength> Blake2bMac<N> {
        pub uninterp spec fn key(&self) -> Seq<u8>;
        pub uninterp spec fn buf(&self) -> Seq<u8>;
    }
    impl<N: ArrayLength> digest::MacState for Blake2bMac<N> {
        open spec fn mkey(&self) -> Seq<u8> { self.key() }
        open spec fn mbuf(&self) -> Seq<u8> { self.buf() }
        open spec fn mout(key: Seq<u8>, buf: Seq<u8>) -> Seq<u8> { blake2b_mac(key, N::n(), buf) }
        open spec fn key_ok(n: nat) -> bool { 0 < n <= 64 }
    }
    impl<N: ArrayLength> digest::KeyInit for Blake2bMac<N> {
        #[verifier::external_body]
        fn new_from_slice(key: &[u8]) -> (r: Result<Self, digest::InvalidLength>) { unimplemented!() }
    }
    impl<N: ArrayLength> digest::Update for Blake2bMac<N> {
        #[verifier::external_body]
        fn update(&mut self, data: &[u8]) { unimplemented!() }
    }
    impl<N: ArrayLength> digest::FixedOutput for Blake2bMac<N> {
        type N = N;
        #[verifier::external_body]
        fn finalize_fixed(self) -> (r: GenericArray<N>) { unimplemented!() }
        #[verifier::external_body]
        fn finalize_into(self, out: &mut GenericArray<N>) { unimplemented!() }
    }
    impl<N: ArrayLength> digest::Mac for Blake2bMac<N> {
        type N = N;
        #[verifier::external_body]
        fn new_from_slice(key: &[u8]) -> (r: Result<Self, digest::InvalidLength>) { unimplemented!() }
        #[verifier::external_body]
        fn update(&mut self, data: &[u8]) { unimplemented!() }
        #[verifier::external_body]
        fn finalize(self) -> (r: digest::CtOutput<N>) { unimplemented!() }
    }
    }
}

pub mod sha2 {
    use vstd::prelude::*;
    use crate::glue::*;
    verus!{
    // `Sha384` names the hasher type; a value of it is a running hash state whose view is the bytes absorbed so far
    #[verifier::external_body] pub struct Sha384 { _x: u8 }
    pub type Sha384State = Sha384;
    impl View for Sha384 { type V = Seq<u8>; uninterp spec fn view(&self) -> Seq<u8>; }
    impl Default for Sha384 {
        #[verifier::external_body]
        fn default() -> (r: Sha384) ensures r@ == Seq::<u8>::empty() { unimplemented!() }
    }
    pub trait Digest: Sized {
        spec fn absorbed(&self) -> Seq<u8>;
        fn new() -> (r: Self) ensures r.absorbed() == Seq::<u8>::empty();
        fn update<D: AsRef<[u8]>>(&mut self, data: D) ensures final(self).absorbed() == old(self).absorbed() + as_ref_spec::<D, [u8]>(&data)@;
    }
    impl Digest for Sha384 {
        open spec fn absorbed(&self) -> Seq<u8> { self@ }
        #[verifier::external_body]
        fn new() -> (r: Self) { unimplemented!() }
        #[verifier::external_body]
        fn update<D: AsRef<[u8]>>(&mut self, data: D) { unimplemented!() }
    }
    }
}
pub mod hmac {
    use vstd::prelude::*;
    use crate::generic_array::*;
    use crate::cryptospec::*;
    pub use crate::digest::Mac;
    verus!{
    #[verifier::external_body]
    #[verifier::reject_recursive_types(D)]
    pub struct Hmac<D> { _d: core::marker::PhantomData<D> }
    impl<D> Hmac<D> {
        pub uninterp spec fn key(&self) -> Seq<u8>;
        pub uninterp spec fn buf(&self) -> Seq<u8>;
    }
    impl crate::digest::MacState for Hmac<crate::sha2::Sha384> {
        open spec fn mkey(&self) -> Seq<u8> { self.key() }
        open spec fn mbuf(&self) -> Seq<u8> { self.buf() }
        open spec fn mout(key: Seq<u8>, buf: Seq<u8>) -> Seq<u8> { hmac_sha384(key, buf) }
        open spec fn key_ok(n: nat) -> bool { true }
    }
    impl crate::digest::Mac for Hmac<crate::sha2::Sha384> {
        type N = U48;
        #[verifier::external_body]
        fn new_from_slice(key: &[u8]) -> (r: Result<Self, crate::digest::InvalidLength>) { unimplemented!() }
        #[verifier::external_body]
        fn update(&mut self, data: &[u8]) { unimplemented!() }
        #[verifier::external_body]
        fn finalize(self) -> (r: crate::digest::CtOutput<U48>) { unimplemented!() }
    }
    }
}
