// Uninterpreted cryptographic primitives + the FUNCTIONAL facts assumed about them (DESIGN §1.7, §2.2).
// No injectivity / unforgeability axiom is stated anywhere.
pub mod cryptospec {
use vstd::prelude::*;
verus!{
// keyed BLAKE2b with variable output length (RFC 7693)
pub uninterp spec fn blake2b_mac(key: Seq<u8>, outlen: nat, msg: Seq<u8>) -> Seq<u8>;
pub broadcast axiom fn ax_blake2b_len(key: Seq<u8>, outlen: nat, msg: Seq<u8>)
    ensures #[trigger] blake2b_mac(key, outlen, msg).len() == outlen;
// XChaCha20 keystream XOR from block counter 0
pub uninterp spec fn xchacha20_xor(key: Seq<u8>, nonce: Seq<u8>, data: Seq<u8>) -> Seq<u8>;
pub broadcast axiom fn ax_xchacha_len(key: Seq<u8>, nonce: Seq<u8>, data: Seq<u8>)
    ensures #[trigger] xchacha20_xor(key, nonce, data).len() == data.len();
pub broadcast axiom fn ax_xchacha_invol(key: Seq<u8>, nonce: Seq<u8>, data: Seq<u8>)
    ensures #[trigger] xchacha20_xor(key, nonce, xchacha20_xor(key, nonce, data)) == data;
// AES-256-CTR keystream XOR from the given 16-byte initial counter block
pub uninterp spec fn aes256_ctr_xor(key: Seq<u8>, iv: Seq<u8>, data: Seq<u8>) -> Seq<u8>;
pub broadcast axiom fn ax_aesctr_len(key: Seq<u8>, iv: Seq<u8>, data: Seq<u8>)
    ensures #[trigger] aes256_ctr_xor(key, iv, data).len() == data.len();
pub broadcast axiom fn ax_aesctr_invol(key: Seq<u8>, iv: Seq<u8>, data: Seq<u8>)
    ensures #[trigger] aes256_ctr_xor(key, iv, aes256_ctr_xor(key, iv, data)) == data;
// HMAC-SHA-384, HKDF-SHA-384 (RFC 5869)
pub uninterp spec fn hmac_sha384(key: Seq<u8>, msg: Seq<u8>) -> Seq<u8>;
pub broadcast axiom fn ax_hmac_len(key: Seq<u8>, msg: Seq<u8>)
    ensures #[trigger] hmac_sha384(key, msg).len() == 48;
pub uninterp spec fn hkdf_sha384(salt: Seq<u8>, ikm: Seq<u8>, info: Seq<u8>, len: nat) -> Seq<u8>;
pub broadcast axiom fn ax_hkdf_len(salt: Seq<u8>, ikm: Seq<u8>, info: Seq<u8>, len: nat)
    ensures #[trigger] hkdf_sha384(salt, ikm, info, len).len() == len;
// XChaCha20-Poly1305 AEAD (ciphertext || 16-byte tag)
pub uninterp spec fn xchacha20poly1305_seal(key: Seq<u8>, nonce: Seq<u8>, aad: Seq<u8>, msg: Seq<u8>) -> Seq<u8>;
pub uninterp spec fn xchacha20poly1305_open(key: Seq<u8>, nonce: Seq<u8>, aad: Seq<u8>, boxed: Seq<u8>) -> Option<Seq<u8>>;
pub broadcast axiom fn ax_aead_len(key: Seq<u8>, nonce: Seq<u8>, aad: Seq<u8>, msg: Seq<u8>)
    ensures #[trigger] xchacha20poly1305_seal(key, nonce, aad, msg).len() == msg.len() + 16;
pub broadcast axiom fn ax_aead_open_seal(key: Seq<u8>, nonce: Seq<u8>, aad: Seq<u8>, msg: Seq<u8>)
    ensures #[trigger] xchacha20poly1305_open(key, nonce, aad, xchacha20poly1305_seal(key, nonce, aad, msg)) == Some(msg);
// Ed25519 (RFC 8032): keypair bytes = seed(32) || public(32)
pub uninterp spec fn ed25519_keypair_ok(kp: Seq<u8>) -> bool;
pub uninterp spec fn ed25519_pk_ok(pk: Seq<u8>) -> bool;
pub uninterp spec fn ed25519_sign(kp: Seq<u8>, msg: Seq<u8>) -> Seq<u8>;
pub uninterp spec fn ed25519_verify(pk: Seq<u8>, msg: Seq<u8>, sig: Seq<u8>) -> bool;
pub broadcast axiom fn ax_ed25519_len(kp: Seq<u8>, msg: Seq<u8>)
    ensures #[trigger] ed25519_sign(kp, msg).len() == 64;
pub broadcast axiom fn ax_ed25519_correct(kp: Seq<u8>, msg: Seq<u8>)
    requires ed25519_keypair_ok(kp), kp.len() == 64,
    ensures ed25519_pk_ok(kp.subrange(32, 64)),
            #[trigger] ed25519_verify(kp.subrange(32, 64), msg, ed25519_sign(kp, msg));
// ECDSA P-384 / SHA-384 with 96-byte fixed-size signatures; public keys as SEC1 bytes
pub uninterp spec fn p384_sk_ok(sk: Seq<u8>) -> bool;
pub uninterp spec fn p384_pk_ok(sec1: Seq<u8>) -> bool;
pub uninterp spec fn p384_compress(sec1: Seq<u8>) -> Seq<u8>;           // 49-byte compressed SEC1 point
pub uninterp spec fn p384_pk_of_sk(sk: Seq<u8>) -> Seq<u8>;             // compressed point of sk*G
pub uninterp spec fn p384_sig_ok(sig: Seq<u8>) -> bool;                 // parses as (r, s) in range
pub uninterp spec fn p384_verify(pk_compressed: Seq<u8>, msg: Seq<u8>, sig: Seq<u8>) -> bool;
pub uninterp spec fn p384_sign_rel(sk: Seq<u8>, msg: Seq<u8>, sig: Seq<u8>) -> bool; // sig is an output of sign(sk, SHA384(msg))
pub broadcast axiom fn ax_p384_compress_len(sec1: Seq<u8>)
    requires p384_pk_ok(sec1),
    ensures (#[trigger] p384_compress(sec1)).len() == 49, p384_pk_ok(p384_compress(sec1)),
            p384_compress(p384_compress(sec1)) == p384_compress(sec1);
pub broadcast axiom fn ax_p384_pk_of_sk(sk: Seq<u8>)
    requires p384_sk_ok(sk),
    ensures p384_pk_ok(#[trigger] p384_pk_of_sk(sk)), p384_compress(p384_pk_of_sk(sk)) == p384_pk_of_sk(sk);
pub broadcast axiom fn ax_p384_correct(sk: Seq<u8>, msg: Seq<u8>, sig: Seq<u8>)
    requires p384_sk_ok(sk), #[trigger] p384_sign_rel(sk, msg, sig),
    ensures sig.len() == 96, p384_sig_ok(sig), p384_verify(p384_pk_of_sk(sk), msg, sig);
// RSASSA-PSS / SHA-384, 2048-bit modulus (256-byte signatures); keys as DER bytes
pub uninterp spec fn rsa_pkcs8_ok(der: Seq<u8>) -> bool;
pub uninterp spec fn rsa_pk_of(pkcs8: Seq<u8>) -> Seq<u8>;
pub uninterp spec fn rsa_modulus_len(pkcs8: Seq<u8>) -> nat;
pub uninterp spec fn rsa_pss_verify(pk: Seq<u8>, msg: Seq<u8>, sig: Seq<u8>) -> bool;
pub uninterp spec fn rsa_pss_sign_rel(pkcs8: Seq<u8>, msg: Seq<u8>, sig: Seq<u8>) -> bool;
pub broadcast axiom fn ax_rsa_correct(pkcs8: Seq<u8>, msg: Seq<u8>, sig: Seq<u8>)
    requires rsa_pkcs8_ok(pkcs8), #[trigger] rsa_pss_sign_rel(pkcs8, msg, sig),
    ensures rsa_pss_verify(rsa_pk_of(pkcs8), msg, sig);
// concatenation of a list of byte strings (HKDF "info" is passed as a list of pieces)
pub open spec fn concat_all(ps: Seq<Seq<u8>>) -> Seq<u8> decreases ps.len() {
    if ps.len() == 0 { Seq::empty() } else { concat_all(ps.drop_last()) + ps.last() }
}
pub broadcast proof fn lemma_concat_all_1(ps: Seq<Seq<u8>>)
    requires ps.len() == 1
    ensures #[trigger] concat_all(ps) == ps[0]
{ reveal_with_fuel(concat_all, 2); assert(concat_all(ps.drop_last()) =~= Seq::<u8>::empty()); assert(concat_all(ps) =~= ps[0]); }
// CSPRNG: the only way to establish fresh_draw is ring::rand::SecureRandom::fill
pub uninterp spec fn fresh_draw(bytes: Seq<u8>) -> bool;

pub broadcast group group_crypto {
    ax_blake2b_len, ax_xchacha_len, ax_xchacha_invol, ax_aesctr_len, ax_aesctr_invol, ax_hmac_len, ax_hkdf_len,
    ax_aead_len, ax_aead_open_seal, ax_ed25519_len, ax_ed25519_correct, ax_p384_compress_len, ax_p384_pk_of_sk, ax_p384_correct, ax_rsa_correct, lemma_concat_all_1
}
}
}
