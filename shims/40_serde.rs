// serde / serde_json / erased-serde: ASSUMED model.  A serialisable value is modelled by the JSON tree
// `json()` that serde_json::to_value would produce for it; printing/parsing round-trips (from_str(to_string(v)) == v).
pub mod serde_json {
    use vstd::prelude::*;
    use crate::glue::*;
    verus!{
    #[verifier::external_body]
    #[derive(Debug)]
    pub struct Error { _x: u8 }
    #[verifier::external_body]
    pub struct Number { _x: u8 }
    #[verifier::external_body]
    #[verifier::accept_recursive_types(K)]
    #[verifier::accept_recursive_types(V)]
    pub struct Map<K, V> { _k: core::marker::PhantomData<(K, V)> }
    pub enum Value { Null, Bool(bool), Number(Number), String(String), Array(Vec<Value>), Object(Map<String, Value>) }
    impl Clone for Value {
        #[verifier::external_body]
        fn clone(&self) -> (r: Value) ensures r == *self { unimplemented!() }
    }

    impl Map<String, Value> {
        pub uninterp spec fn view(&self) -> vstd::map::Map<Seq<char>, Value>;
        #[verifier::external_body]
        pub fn new() -> (r: Self) ensures r.view() == vstd::map::Map::<Seq<char>, Value>::empty() { unimplemented!() }
        #[verifier::external_body]
        pub fn len(&self) -> (r: usize) ensures r == self.view().len(), self.view().dom().finite() { unimplemented!() }
        #[verifier::external_body]
        pub fn is_empty(&self) -> (r: bool) ensures r == (self.view().len() == 0), self.view().dom().finite() { unimplemented!() }
        #[verifier::external_body]
        pub fn contains_key(&self, k: &String) -> (r: bool) ensures r == self.view().contains_key(k@) { unimplemented!() }
        #[verifier::external_body]
        pub fn remove(&mut self, k: &String) -> (r: Option<Value>)
            ensures final(self).view() == old(self).view().remove(k@),
                    match r { Some(v) => old(self).view().contains_key(k@) && v == old(self).view()[k@], None => !old(self).view().contains_key(k@) }
        { unimplemented!() }
    }
    pub broadcast axiom fn ax_json_object_ext(a: Value, b: Value)
        requires a is Object, b is Object, a->Object_0.view() == b->Object_0.view()
        ensures #[trigger] a->Object_0.view() == #[trigger] b->Object_0.view() ==> a == b;
    // the JSON value of a one-member object {k: v}
    pub open spec fn is_obj1(j: Value, k: Seq<char>, v: Value) -> bool {
        j is Object && j->Object_0.view() == vstd::map::Map::<Seq<char>, Value>::empty().insert(k, v)
    }
    // json[key]: Null when j is not an object or has no such member (serde_json's Index impl never panics for string keys)
    pub open spec fn json_get(j: Value, k: Seq<char>) -> Value {
        if j is Object && j->Object_0.view().contains_key(k) { j->Object_0.view()[k] } else { Value::Null }
    }
    pub trait JsonIndex { spec fn idx_key(&self) -> Seq<char>; }
    impl JsonIndex for str { open spec fn idx_key(&self) -> Seq<char> { self@ } }
    impl JsonIndex for String { open spec fn idx_key(&self) -> Seq<char> { self@ } }
    impl<T: JsonIndex + ?Sized> JsonIndex for &T { open spec fn idx_key(&self) -> Seq<char> { (**self).idx_key() } }
    #[verifier::external_body]
    pub fn value_index<'a, I: JsonIndex>(j: &'a Value, i: I) -> (r: &'a Value) ensures *r == json_get(*j, i.idx_key()) { unimplemented!() }
    // Value == Value (derived PartialEq in serde_json): structural equality of JSON trees
    #[verifier::external_body]
    pub fn value_eq(a: &Value, b: &Value) -> (r: bool) ensures r == (*a == *b) { unimplemented!() }
    impl Value {
        #[verifier::external_body]
        pub fn as_str(&self) -> (r: Option<&str>)
            ensures match *self { Value::String(s) => r is Some && r->Some_0@ == s@, _ => r is None }
        { unimplemented!() }
        #[verifier::external_body]
        pub fn is_null(&self) -> (r: bool) ensures r == (*self is Null) { unimplemented!() }
    }
    pub uninterp spec fn json_parse(s: Seq<char>) -> Option<Value>;
    pub uninterp spec fn json_print(v: Value) -> Seq<char>;
    pub broadcast axiom fn ax_json_roundtrip(v: Value)
        ensures #[trigger] json_parse(json_print(v)) == Some(v);
    #[verifier::external_body]
    pub fn from_str(s: &str) -> (r: Result<Value, Error>)
        ensures match json_parse(s@) { Some(v) => r is Ok && r->Ok_0 == v, None => r is Err }
    { unimplemented!() }
    #[verifier::external_body]
    pub fn to_string(v: &Value) -> (r: Result<String, Error>)
        ensures r is Ok ==> r->Ok_0@ == json_print(*v)
    { unimplemented!() }
    #[verifier::external_body]
    pub fn to_value<T: crate::serde::Serialize>(value: T) -> (r: Result<Value, Error>)
        // ASSUMED: serialising a claim value into a JSON tree does not fail
        ensures r is Ok, r->Ok_0 == value.json()
    { unimplemented!() }
    }
}
impl core::iter::FromIterator<(String, serde_json::Value)> for serde_json::Map<String, serde_json::Value> {
    fn from_iter<I: IntoIterator<Item = (String, serde_json::Value)>>(_i: I) -> Self { unimplemented!() }
}
impl IntoIterator for serde_json::Map<String, serde_json::Value> {
    type Item = (String, serde_json::Value);
    type IntoIter = std::vec::IntoIter<(String, serde_json::Value)>;
    fn into_iter(self) -> Self::IntoIter { unimplemented!() }
}
pub mod serde {
    use vstd::prelude::*;
    use crate::serde_json::Value;
    verus!{
    // Abstract serializer protocol (what serde_json's serializers implement): a map under construction collects
    // (key, value) members; `end` yields the JSON object with exactly those members.  `JsonSpec` (the JSON tree of a
    // value) is a separate supertrait so that Serializer/SerializeMap do not mention Serialize (Verus rejects that cycle).
    pub trait JsonSpec { spec fn json(&self) -> Value; }
    pub trait Serializer: Sized {
        type Ok; type Error;
        type SerializeMap: ser::SerializeMap<Ok = Self::Ok, Error = Self::Error>;
        fn serialize_map(self, len: Option<usize>) -> (r: Result<Self::SerializeMap, Self::Error>)
            ensures r is Ok ==> <Self::SerializeMap as ser::SerializeMap>::entries(&r->Ok_0) == vstd::map::Map::<Seq<char>, Value>::empty()
                             && <Self::SerializeMap as ser::SerializeMap>::pending(&r->Ok_0) is None;
    }
    pub trait Serialize: JsonSpec {
        fn serialize<S: Serializer>(&self, serializer: S) -> (r: Result<S::Ok, S::Error>)
            ensures r is Ok ==> <S::SerializeMap as ser::SerializeMap>::ok_json(r->Ok_0) == self.json();
    }
    impl JsonSpec for Value { open spec fn json(&self) -> Value { *self } }
    impl Serialize for Value {
        #[verifier::external_body]
        fn serialize<S: Serializer>(&self, serializer: S) -> (r: Result<S::Ok, S::Error>) { unimplemented!() }
    }
    impl<T: JsonSpec + ?Sized> JsonSpec for &T { open spec fn json(&self) -> Value { (**self).json() } }
    impl<T: JsonSpec + ?Sized> JsonSpec for Box<T> { open spec fn json(&self) -> Value { (**self).json() } }
    impl JsonSpec for str { uninterp spec fn json(&self) -> Value; }
    impl JsonSpec for String { uninterp spec fn json(&self) -> Value; }
    impl<T: Serialize + ?Sized> Serialize for &T {
        #[verifier::external_body]
        fn serialize<S: Serializer>(&self, serializer: S) -> (r: Result<S::Ok, S::Error>) { unimplemented!() } }
    impl<T: Serialize + ?Sized> Serialize for Box<T> {
        #[verifier::external_body]
        fn serialize<S: Serializer>(&self, serializer: S) -> (r: Result<S::Ok, S::Error>) { unimplemented!() } }
    impl Serialize for str {
        #[verifier::external_body]
        fn serialize<S: Serializer>(&self, serializer: S) -> (r: Result<S::Ok, S::Error>) { unimplemented!() } }
    impl Serialize for String {
        #[verifier::external_body]
        fn serialize<S: Serializer>(&self, serializer: S) -> (r: Result<S::Ok, S::Error>) { unimplemented!() } }
    pub broadcast axiom fn ax_json_str(s: &str) ensures (#[trigger] s.json()) is String && s.json()->String_0@ == s@;
    pub broadcast axiom fn ax_json_string(s: &String) ensures (#[trigger] s.json()) is String && s.json()->String_0@ == s@;
    pub mod ser {
        use vstd::prelude::*;
        use crate::serde_json::Value;
        use super::JsonSpec;
        verus!{
        pub trait SerializeMap: Sized {
            type Ok; type Error;
            spec fn entries(&self) -> vstd::map::Map<Seq<char>, Value>;
            spec fn pending(&self) -> Option<Seq<char>>;
            spec fn ok_json(ok: Self::Ok) -> Value;
            fn serialize_key<T: ?Sized + JsonSpec>(&mut self, key: &T) -> (r: Result<(), Self::Error>)
                ensures r is Ok ==> key.json() is String && final(self).pending() == Some(key.json()->String_0@) && final(self).entries() == old(self).entries();
            fn serialize_value<T: ?Sized + JsonSpec>(&mut self, value: &T) -> (r: Result<(), Self::Error>)
                requires old(self).pending() is Some
                ensures r is Ok ==> final(self).pending() is None && final(self).entries() == old(self).entries().insert(old(self).pending()->Some_0, value.json());
            fn serialize_entry<K: ?Sized + JsonSpec, V: ?Sized + JsonSpec>(&mut self, key: &K, value: &V) -> (r: Result<(), Self::Error>)
                ensures r is Ok ==> key.json() is String && final(self).pending() is None && final(self).entries() == old(self).entries().insert(key.json()->String_0@, value.json());
            fn end(self) -> (r: Result<Self::Ok, Self::Error>)
                ensures r is Ok ==> Self::ok_json(r->Ok_0) is Object && Self::ok_json(r->Ok_0)->Object_0.view() == self.entries();
        }
        }
    }
    }
}
pub mod erased_serde {
    use vstd::prelude::*;
    use crate::serde_json::Value;
    verus!{
    pub trait Serialize { spec fn erased_json(&self) -> Value; }
    impl<T: crate::serde::Serialize> Serialize for T { open spec fn erased_json(&self) -> Value { self.json() } }
    impl<'a> crate::serde::JsonSpec for dyn Serialize + 'a { open spec fn json(&self) -> Value { self.erased_json() } }
    impl<'a> crate::serde::Serialize for dyn Serialize + 'a {
        #[verifier::external_body]
        fn serialize<S: crate::serde::Serializer>(&self, serializer: S) -> (r: Result<S::Ok, S::Error>) { unimplemented!() } }
    // the JSON tree of a serialisable value, obtained the way GenericBuilder::set_claim does it
    // (erased_serde::serialize into a serde_json byte serializer, then serde_json::from_slice): ASSUMED to be value.json()
    // Box::new(v) followed by the unsizing coercion to Box<dyn Serialize>: the boxed value is v (ASSUMED only because
    // Verus loses `erased_json()` through the coercion of a generic T, and mis-handles the coercion next to HashMap::insert)
    #[verifier::external_body]
    pub fn box_serialize<'b, T: Serialize + 'b>(v: T) -> (r: Box<dyn Serialize + 'b>) ensures r.erased_json() == v.erased_json() { Box::new(v) }
    #[verifier::external_body]
    pub fn to_json_via_bytes<T: Serialize + ?Sized>(value: &T) -> (r: Value) ensures r == value.erased_json() { unimplemented!() }
    }
}
