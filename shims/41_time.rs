// time / iso8601: ASSUMED model.  Date grammars and offset normalisation live in the crates; here an
// RFC 3339 text denotes `rfc3339_instant(text)` (nanoseconds since the Unix epoch) when it parses.
pub mod time {
    use vstd::prelude::*;
    verus!{
    pub uninterp spec fn rfc3339_instant(s: Seq<char>) -> Option<int>;
    pub uninterp spec fn now_spec() -> int;
    pub uninterp spec fn formattable(instant: int) -> bool;       // year within 0..=9999
    pub uninterp spec fn rfc3339_text(instant: int) -> Seq<char>; // what format(&Rfc3339) prints
    pub broadcast axiom fn ax_rfc3339_text_parses(t: int)
        requires formattable(t)
        ensures rfc3339_instant(#[trigger] rfc3339_text(t)) == Some(t), crate::iso8601::iso_prefix_ok(rfc3339_text(t));
    #[verifier::external_body]
    #[derive(Clone, Copy)]
    pub struct OffsetDateTime { _x: u8 }
    #[verifier::external_body]
    #[derive(Clone, Copy)]
    pub struct Duration { _x: u8 }
    impl Duration {
        pub uninterp spec fn ns(&self) -> int;
        #[verifier::external_body]
        pub fn hours(h: i64) -> (r: Duration) ensures r.ns() == h * 3_600_000_000_000 { unimplemented!() }
        #[verifier::external_body]
        pub fn minutes(m: i64) -> (r: Duration) ensures r.ns() == m * 60_000_000_000 { unimplemented!() }
        #[verifier::external_body]
        pub fn seconds(s: i64) -> (r: Duration) ensures r.ns() == s * 1_000_000_000 { unimplemented!() }
        #[verifier::external_body]
        pub fn days(d: i64) -> (r: Duration) ensures r.ns() == d * 86_400_000_000_000 { unimplemented!() }
        #[verifier::external_body]
        pub fn milliseconds(m: i64) -> (r: Duration) ensures r.ns() == m * 1_000_000 { unimplemented!() }
    }
    impl OffsetDateTime {
        pub uninterp spec fn instant(&self) -> int;
        // the clock: ONE arbitrary reading now_spec() per verification scenario (no property here relates two readings),
        // whose year (also one hour later) is printable
        #[verifier::external_body]
        pub fn now_utc() -> (r: OffsetDateTime) ensures r.instant() == now_spec(), formattable(r.instant()), formattable(r.instant() + 3_600_000_000_000) { unimplemented!() }
        #[verifier::external_body]
        pub fn format(self, f: &format_description::well_known::Rfc3339) -> (r: Result<String, error::Format>)
            ensures formattable(self.instant()) ==> r is Ok && r->Ok_0@ == rfc3339_text(self.instant())
        { unimplemented!() }
        #[verifier::external_body]
        pub fn parse(s: &str, f: &format_description::well_known::Rfc3339) -> (r: Result<OffsetDateTime, error::Parse>)
            ensures match rfc3339_instant(s@) { Some(t) => r is Ok && r->Ok_0.instant() == t, None => r is Err }
        { unimplemented!() }
        #[verifier::external_body]
        pub fn to_string(&self) -> (r: String) { unimplemented!() }
        #[verifier::external_body]
        pub fn le(&self, other: &OffsetDateTime) -> (r: bool) ensures r == (self.instant() <= other.instant()) { unimplemented!() }
    }
    impl core::ops::Add<Duration> for OffsetDateTime {
        type Output = OffsetDateTime;
        #[verifier::external_body]
        // `OffsetDateTime + Duration` PANICS when the result leaves the representable range: that is its precondition here
        fn add(self, d: Duration) -> (r: OffsetDateTime) ensures r.instant() == self.instant() + d.ns() { unimplemented!() }
    }
    impl vstd::std_specs::ops::AddSpecImpl<Duration> for OffsetDateTime {
        open spec fn obeys_add_spec() -> bool { false }
        open spec fn add_req(self, rhs: Duration) -> bool { formattable(self.instant() + rhs.ns()) }
        uninterp spec fn add_spec(self, rhs: Duration) -> OffsetDateTime;
    }
    impl core::ops::Sub<Duration> for OffsetDateTime {
        type Output = OffsetDateTime;
        #[verifier::external_body]
        fn sub(self, d: Duration) -> (r: OffsetDateTime) ensures r.instant() == self.instant() - d.ns() { unimplemented!() }
    }
    impl vstd::std_specs::ops::SubSpecImpl<Duration> for OffsetDateTime {
        open spec fn obeys_sub_spec() -> bool { false }
        open spec fn sub_req(self, rhs: Duration) -> bool { formattable(self.instant() - rhs.ns()) }
        uninterp spec fn sub_spec(self, rhs: Duration) -> OffsetDateTime;
    }
    pub mod format_description { pub mod well_known { pub struct Rfc3339; } }
    pub mod error {
        #[derive(Debug)] pub struct Format;
        #[derive(Debug)] pub struct Parse;
    }
    }
}
pub mod iso8601 {
    use vstd::prelude::*;
    verus!{
    // iso8601::datetime(s).is_ok(): s starts with an ISO 8601 date-time the crate's grammar accepts
    pub uninterp spec fn iso_prefix_ok(s: Seq<char>) -> bool;
    pub struct DateTime;
    #[verifier::external_body]
    pub fn datetime(s: &str) -> (r: Result<DateTime, String>) ensures r is Ok <==> iso_prefix_ok(s@) { unimplemented!() }
    }
}
