pub mod base64 {
    use vstd::prelude::*;
    use crate::glue::*;
    verus!{
    #[derive(Debug)] pub struct DecodeError;
    // URL_SAFE_NO_PAD alphabet, no padding, canonical (strict) decoding — base64 0.22 engine defaults
    pub uninterp spec fn b64(b: Seq<u8>) -> Seq<char>;
    pub uninterp spec fn b64_decode(s: Seq<u8>) -> Option<Seq<u8>>;   // on the UTF-8 bytes of the text
    pub broadcast axiom fn ax_b64_roundtrip(b: Seq<u8>)
        ensures #[trigger] b64_decode(vstd::utf8::encode_utf8(b64(b))) == Some(b);
    pub broadcast axiom fn ax_b64_strict(s: Seq<u8>)
        requires (#[trigger] b64_decode(s)) is Some,
        ensures vstd::utf8::encode_utf8(b64(b64_decode(s)->Some_0)) == s;
    pub broadcast axiom fn ax_b64_nodot(b: Seq<u8>)
        ensures !(#[trigger] b64(b)).contains('.');
    pub broadcast axiom fn ax_b64_empty(b: Seq<u8>)
        ensures ((#[trigger] b64(b)).len() == 0) <==> b.len() == 0;
    pub broadcast axiom fn ax_b64_len(b: Seq<u8>)
        ensures (#[trigger] b64(b)).len() == (b.len() * 4 + 2) / 3;
    pub broadcast group group_b64 { ax_b64_roundtrip, ax_b64_strict, ax_b64_nodot, ax_b64_empty, ax_b64_len }
    pub mod prelude {
        use vstd::prelude::*;
        use super::*;
        pub struct Engine;
        pub const BASE64_URL_SAFE_NO_PAD: Engine = Engine;
        impl Engine {
            #[verifier::external_body]
            pub fn encode<T: AsRef<[u8]>>(&self, input: T) -> (r: String)
                ensures r@ == b64(as_ref_spec::<T, [u8]>(&input)@)
            { unimplemented!() }
            #[verifier::external_body]
            pub fn decode<T: AsRef<[u8]>>(&self, input: T) -> (r: Result<Vec<u8>, DecodeError>)
                ensures match b64_decode(as_ref_spec::<T, [u8]>(&input)@) { Some(v) => r is Ok && r->Ok_0@ == v, None => r is Err }
            { unimplemented!() }
        }
    }
    }
}
pub mod hex {
    use vstd::prelude::*;
    verus!{
    #[derive(Debug)] pub enum FromHexError { InvalidHexCharacter { c: char, index: usize }, OddLength, InvalidStringLength }
    #[verifier::external_body]
    pub fn decode(s: &str) -> (r: Result<Vec<u8>, FromHexError>)
        ensures r is Ok ==> 2 * r->Ok_0@.len() == s@.len()
    { unimplemented!() }
    }
}
