pub mod ed25519_dalek {
    use vstd::prelude::*;
    verus!{
    pub mod ed25519 { #[derive(Debug)] pub struct Error; }
    pub const SIGNATURE_LENGTH: usize = 64;
    }
}
pub mod p384 {
    use vstd::prelude::*;
    verus!{
    pub mod ecdsa { #[derive(Debug)] pub struct Error; }
    }
}
