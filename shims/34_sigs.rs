pub mod ed25519_dalek {
    use vstd::prelude::*;
    use crate::cryptospec::*;
    verus!{
    pub mod ed25519 { #[derive(Debug)] pub struct Error; }
    pub type SignatureError = ed25519::Error;
    pub const SIGNATURE_LENGTH: usize = 64;
    #[verifier::external_body] pub struct VerifyingKey { _x: u8 }
    #[verifier::external_body] pub struct SigningKey { _x: u8 }
    #[verifier::external_body] pub struct Signature { _x: u8 }
    impl View for VerifyingKey { type V = Seq<u8>; uninterp spec fn view(&self) -> Seq<u8>; }
    impl View for SigningKey { type V = Seq<u8>; uninterp spec fn view(&self) -> Seq<u8>; }   // keypair bytes seed||public
    impl View for Signature { type V = Seq<u8>; uninterp spec fn view(&self) -> Seq<u8>; }
    impl VerifyingKey {
        #[verifier::external_body]
        pub fn from_bytes(bytes: &[u8; 32]) -> (r: Result<VerifyingKey, SignatureError>)
            ensures ed25519_pk_ok(bytes@) <==> r is Ok, r is Ok ==> r->Ok_0@ == bytes@
        { unimplemented!() }
    }
    impl SigningKey {
        #[verifier::external_body]
        pub fn from_keypair_bytes(bytes: &[u8; 64]) -> (r: Result<SigningKey, SignatureError>)
            ensures ed25519_keypair_ok(bytes@) <==> r is Ok, r is Ok ==> r->Ok_0@ == bytes@
        { unimplemented!() }
    }
    impl Signature {
        #[verifier::external_body]
        pub fn to_bytes(&self) -> (r: [u8; 64]) ensures r@ == self@ { unimplemented!() }
    }
    impl<'a> TryFrom<&'a [u8]> for Signature {
        type Error = ed25519::Error;
        #[verifier::external_body]
        fn try_from(bytes: &'a [u8]) -> (r: Result<Signature, ed25519::Error>)
            ensures bytes@.len() == 64 <==> r is Ok, r is Ok ==> r->Ok_0@ == bytes@
        { unimplemented!() }
    }
    impl<'a> vstd::std_specs::convert::TryFromSpecImpl<&'a [u8]> for Signature {
        open spec fn obeys_try_from_spec() -> bool { false }
        uninterp spec fn try_from_spec(v: &'a [u8]) -> Result<Self, ed25519::Error>;
    }
    pub trait Verifier {
        spec fn vk(&self) -> Seq<u8>;
        fn verify(&self, msg: &[u8], signature: &Signature) -> (r: Result<(), SignatureError>)
            ensures r is Ok <==> ed25519_verify(self.vk(), msg@, signature@);
    }
    pub trait Signer {
        spec fn sk(&self) -> Seq<u8>;
        fn sign(&self, msg: &[u8]) -> (r: Signature) ensures r@ == ed25519_sign(self.sk(), msg@);
    }
    impl Verifier for VerifyingKey {
        open spec fn vk(&self) -> Seq<u8> { self@ }
        #[verifier::external_body]
        fn verify(&self, msg: &[u8], signature: &Signature) -> (r: Result<(), SignatureError>) { unimplemented!() }
    }
    impl Signer for SigningKey {
        open spec fn sk(&self) -> Seq<u8> { self@ }
        #[verifier::external_body]
        fn sign(&self, msg: &[u8]) -> (r: Signature) { unimplemented!() }
    }
    }
}
pub mod p384 {
    use vstd::prelude::*;
    use crate::cryptospec::*;
    use crate::generic_array::*;
    use crate::glue::*;
    verus!{
    #[verifier::external_body] pub struct PublicKey { _x: u8 }
    impl View for PublicKey { type V = Seq<u8>; uninterp spec fn view(&self) -> Seq<u8>; }   // the SEC1 bytes it was parsed from
    #[verifier::external_body] pub struct EncodedPoint { _x: u8 }
    impl View for EncodedPoint { type V = Seq<u8>; uninterp spec fn view(&self) -> Seq<u8>; }
    impl AsRef<[u8]> for EncodedPoint {
        #[verifier::external_body]
        fn as_ref(&self) -> (r: &[u8]) ensures r@ == self@ { unimplemented!() }
    }
    pub broadcast axiom fn ax_asref_encoded_point(p: &EncodedPoint)
        ensures (#[trigger] as_ref_spec::<EncodedPoint, [u8]>(p))@ == p@;
    #[derive(Debug)] pub struct Error;
    impl PublicKey {
        #[verifier::external_body]
        pub fn from_sec1_bytes(bytes: &[u8]) -> (r: Result<PublicKey, Error>)
            ensures p384_pk_ok(bytes@) <==> r is Ok, r is Ok ==> r->Ok_0@ == bytes@
        { unimplemented!() }
    }
    pub mod elliptic_curve { pub mod sec1 {
        use vstd::prelude::*;
        use crate::cryptospec::*;
        verus!{
        pub trait ToEncodedPoint {
            spec fn point_sec1(&self) -> Seq<u8>;
            fn to_encoded_point(&self, compress: bool) -> (r: super::super::EncodedPoint)
                ensures compress ==> r@ == p384_compress(self.point_sec1());
        }
        }
    } }
    impl elliptic_curve::sec1::ToEncodedPoint for PublicKey {
        open spec fn point_sec1(&self) -> Seq<u8> { self@ }
        #[verifier::external_body]
        fn to_encoded_point(&self, compress: bool) -> (r: EncodedPoint) { unimplemented!() }
    }
    pub mod ecdsa {
        use vstd::prelude::*;
        use crate::cryptospec::*;
        use crate::generic_array::*;
        use super::EncodedPoint;
        verus!{
        #[derive(Debug)] pub struct Error;
        #[verifier::external_body] pub struct VerifyingKey { _x: u8 }
        impl View for VerifyingKey { type V = Seq<u8>; uninterp spec fn view(&self) -> Seq<u8>; }   // compressed SEC1 point
        #[verifier::external_body] pub struct SigningKey { _x: u8 }
        impl View for SigningKey { type V = Seq<u8>; uninterp spec fn view(&self) -> Seq<u8>; }     // 48-byte scalar
        #[verifier::external_body] pub struct Signature { _x: u8 }
        impl View for Signature { type V = Seq<u8>; uninterp spec fn view(&self) -> Seq<u8>; }
        pub type FieldBytes = GenericArray<U48>;
        // <&GenericArray<u8, U48>>::from(&[u8]) panics unless the slice has 48 bytes
        impl<'a> From<&'a [u8]> for &'a FieldBytes {
            #[verifier::external_body]
            fn from(a: &'a [u8]) -> (r: &'a FieldBytes) ensures a@.len() == 48 ==> r@ == a@ { unimplemented!() }
        }
        impl<'a> vstd::std_specs::convert::FromSpecImpl<&'a [u8]> for &'a FieldBytes {
            open spec fn obeys_from_spec() -> bool { false } uninterp spec fn from_spec(v: &'a [u8]) -> Self;
        }
        impl VerifyingKey {
            #[verifier::external_body]
            pub fn from_sec1_bytes(bytes: &[u8]) -> (r: Result<VerifyingKey, Error>)
                ensures p384_pk_ok(bytes@) <==> r is Ok, r is Ok ==> r->Ok_0@ == p384_compress(bytes@)
            { unimplemented!() }
        }
        impl<'a> From<&'a SigningKey> for VerifyingKey {
            #[verifier::external_body]
            fn from(sk: &'a SigningKey) -> (r: VerifyingKey) ensures r@ == p384_pk_of_sk(sk@) { unimplemented!() }
        }
        impl<'a> vstd::std_specs::convert::FromSpecImpl<&'a SigningKey> for VerifyingKey {
            open spec fn obeys_from_spec() -> bool { false } uninterp spec fn from_spec(v: &'a SigningKey) -> Self;
        }
        impl super::elliptic_curve::sec1::ToEncodedPoint for VerifyingKey {
            open spec fn point_sec1(&self) -> Seq<u8> { self@ }
            #[verifier::external_body]
            fn to_encoded_point(&self, compress: bool) -> (r: EncodedPoint) { unimplemented!() }
        }
        impl SigningKey {
            #[verifier::external_body]
            pub fn from_bytes(bytes: &FieldBytes) -> (r: Result<SigningKey, Error>)
                ensures p384_sk_ok(bytes@) <==> r is Ok, r is Ok ==> r->Ok_0@ == bytes@
            { unimplemented!() }
        }
        impl Signature {
            #[verifier::external_body]
            pub fn to_bytes(&self) -> (r: GenericArray<U96>) ensures r@ == self@ { unimplemented!() }
        }
        impl<'a> TryFrom<&'a [u8]> for Signature {
            type Error = Error;
            #[verifier::external_body]
            fn try_from(bytes: &'a [u8]) -> (r: Result<Signature, Error>)
                ensures (bytes@.len() == 96 && p384_sig_ok(bytes@)) <==> r is Ok, r is Ok ==> r->Ok_0@ == bytes@
            { unimplemented!() }
        }
        impl<'a> vstd::std_specs::convert::TryFromSpecImpl<&'a [u8]> for Signature {
            open spec fn obeys_try_from_spec() -> bool { false }
            uninterp spec fn try_from_spec(v: &'a [u8]) -> Result<Self, Error>;
        }
        pub mod signature {
            use vstd::prelude::*;
            use crate::cryptospec::*;
            use super::*;
            verus!{
            // digest-based signing / verification: the digest object carries the bytes absorbed so far
            pub trait DigestVerifier {
                spec fn vk(&self) -> Seq<u8>;
                fn verify_digest(&self, digest: crate::sha2::Sha384State, signature: &Signature) -> (r: Result<(), Error>)
                    ensures r is Ok <==> p384_verify(self.vk(), digest@, signature@);
            }
            pub trait DigestSigner {
                spec fn sk(&self) -> Seq<u8>;
                fn try_sign_digest(&self, digest: crate::sha2::Sha384State) -> (r: Result<Signature, Error>)
                    ensures r is Ok ==> p384_sign_rel(self.sk(), digest@, r->Ok_0@);
            }
            impl DigestVerifier for VerifyingKey {
                open spec fn vk(&self) -> Seq<u8> { self@ }
                #[verifier::external_body]
                fn verify_digest(&self, digest: crate::sha2::Sha384State, signature: &Signature) -> (r: Result<(), Error>) { unimplemented!() }
            }
            impl DigestSigner for SigningKey {
                open spec fn sk(&self) -> Seq<u8> { self@ }
                #[verifier::external_body]
                fn try_sign_digest(&self, digest: crate::sha2::Sha384State) -> (r: Result<Signature, Error>) { unimplemented!() }
            }
            }
        }
        }
    }
    }
}
