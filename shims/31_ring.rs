pub mod ring {
    pub mod error { use vstd::prelude::*; verus!{ #[derive(Debug)] pub struct Unspecified; #[derive(Debug)] pub struct KeyRejected; } }
    pub mod constant_time {
        use vstd::prelude::*;
        verus!{
        #[verifier::external_body]
        pub fn verify_slices_are_equal(a: &[u8], b: &[u8]) -> (r: Result<(), super::error::Unspecified>)
            ensures r is Ok <==> a@ == b@
        { unimplemented!() }
        }
    }
    pub mod rand {
        use vstd::prelude::*;
        use crate::cryptospec::fresh_draw;
        verus!{
        pub struct SystemRandom;
        impl SystemRandom {
            #[verifier::external_body]
            pub fn new() -> Self { unimplemented!() } }
        pub trait SecureRandom {
            fn fill(&self, dest: &mut [u8]) -> (r: Result<(), super::error::Unspecified>)
                ensures final(dest)@.len() == old(dest)@.len(), r is Ok ==> fresh_draw(final(dest)@);
        }
        impl SecureRandom for SystemRandom {
            #[verifier::external_body]
            fn fill(&self, dest: &mut [u8]) -> (r: Result<(), super::error::Unspecified>) { unimplemented!() }
        }
        }
    }
    pub mod hkdf {
        use vstd::prelude::*;
        use crate::cryptospec::*;
        use crate::pspec::views;
        verus!{
        #[derive(Clone, Copy)] pub struct Algorithm;
        pub const HKDF_SHA384: Algorithm = Algorithm;
        pub uninterp spec fn keytype_len<L: ?Sized>(l: &L) -> usize;
        pub trait KeyType { fn len(&self) -> (r: usize) ensures r == keytype_len(self); }
        #[verifier::external_body] pub struct Salt { _x: u8 }
        #[verifier::external_body] pub struct Prk { _x: u8 }
        #[verifier::external_body]
        #[verifier::reject_recursive_types(L)]
        pub struct Okm<'a, L: KeyType> { _l: core::marker::PhantomData<&'a L> }
        impl Salt {
            pub uninterp spec fn salt(&self) -> Seq<u8>;
            #[verifier::external_body]
            pub fn new(algorithm: Algorithm, value: &[u8]) -> (r: Salt) ensures r.salt() == value@ { unimplemented!() }
            #[verifier::external_body]
            pub fn extract(&self, secret: &[u8]) -> (r: Prk) ensures r.salt() == self.salt(), r.ikm() == secret@ { unimplemented!() }
        }
        impl Prk {
            pub uninterp spec fn salt(&self) -> Seq<u8>;
            pub uninterp spec fn ikm(&self) -> Seq<u8>;
            #[verifier::external_body]
            pub fn expand<'a, L: KeyType>(&'a self, info: &'a [&'a [u8]], len: L) -> (r: Result<Okm<'a, L>, super::error::Unspecified>)
                ensures keytype_len(&len) <= 255 * 48 <==> r is Ok,
                        r is Ok ==> r->Ok_0.len_obj() == len
                                 && r->Ok_0.out() == hkdf_sha384(self.salt(), self.ikm(), concat_all(views(info@)), keytype_len(&len) as nat)
            { unimplemented!() }
        }
        impl<'a, L: KeyType> Okm<'a, L> {
            pub uninterp spec fn len_obj(&self) -> L;
            pub uninterp spec fn out(&self) -> Seq<u8>;
            #[verifier::external_body]
            pub fn len(&self) -> (r: &L) ensures *r == self.len_obj() { unimplemented!() }
            #[verifier::external_body]
            pub fn fill(self, out: &mut [u8]) -> (r: Result<(), super::error::Unspecified>)
                ensures final(out)@.len() == old(out)@.len(),
                        (old(out)@.len() == keytype_len(&self.len_obj())) <==> r is Ok,
                        r is Ok ==> final(out)@ == self.out()
            { unimplemented!() }
        }
        }
    }
    pub mod signature {
        use vstd::prelude::*;
        use crate::cryptospec::*;
        use crate::glue::*;
        verus!{
        pub struct RsaParameters;
        pub struct RsaEncoding;
        pub const RSA_PSS_2048_8192_SHA384: RsaParameters = RsaParameters;
        pub const RSA_PSS_SHA384: RsaEncoding = RsaEncoding;
        #[verifier::external_body]
        #[verifier::reject_recursive_types(B)]
        pub struct UnparsedPublicKey<B> { _b: core::marker::PhantomData<B> }
        impl<B: AsRef<[u8]>> UnparsedPublicKey<B> {
            pub uninterp spec fn pk(&self) -> Seq<u8>;
            #[verifier::external_body]
            pub fn new(algorithm: &'static RsaParameters, bytes: B) -> (r: Self) ensures r.pk() == as_ref_spec::<B, [u8]>(&bytes)@ { unimplemented!() }
            #[verifier::external_body]
            pub fn verify(&self, message: &[u8], signature: &[u8]) -> (r: Result<(), super::error::Unspecified>)
                ensures r is Ok <==> rsa_pss_verify(self.pk(), message@, signature@)
            { unimplemented!() }
        }
        #[verifier::external_body] pub struct RsaKeyPair { _x: u8 }
        impl RsaKeyPair {
            pub uninterp spec fn pkcs8(&self) -> Seq<u8>;
            #[verifier::external_body]
            pub fn from_pkcs8(pkcs8: &[u8]) -> (r: Result<RsaKeyPair, super::error::KeyRejected>)
                ensures rsa_pkcs8_ok(pkcs8@) <==> r is Ok, r is Ok ==> r->Ok_0.pkcs8() == pkcs8@
            { unimplemented!() }
            #[verifier::external_body]
            pub fn sign(&self, padding_alg: &'static RsaEncoding, rng: &super::rand::SystemRandom, msg: &[u8], signature: &mut [u8]) -> (r: Result<(), super::error::Unspecified>)
                ensures final(signature)@.len() == old(signature)@.len(),
                        r is Ok ==> rsa_pss_sign_rel(self.pkcs8(), msg@, final(signature)@) && old(signature)@.len() == rsa_modulus_len(self.pkcs8()),
            { unimplemented!() }
        }
        }
    }
}
