pub mod ring {
    pub mod error { use vstd::prelude::*; verus!{ #[derive(Debug)] pub struct Unspecified; #[derive(Debug)] pub struct KeyRejected; } }
    pub mod constant_time {
        use vstd::prelude::*;
        verus!{
        #[verifier::external_body]
        pub fn verify_slices_are_equal(a: &[u8], b: &[u8]) -> (r: Result<(), super::error::Unspecified>)
            ensures r is Ok <==> a@ == b@
        { unimplemented!() }
        }
    }
    pub mod rand {
        use vstd::prelude::*;
        use crate::cryptospec::fresh_draw;
        verus!{
        pub struct SystemRandom;
        impl SystemRandom {
            #[verifier::external_body]
            pub fn new() -> Self { unimplemented!() } }
        pub trait SecureRandom {
            fn fill(&self, dest: &mut [u8]) -> (r: Result<(), super::error::Unspecified>)
                ensures final(dest)@.len() == old(dest)@.len(), r is Ok ==> fresh_draw(final(dest)@);
        }
        impl SecureRandom for SystemRandom {
            #[verifier::external_body]
            fn fill(&self, dest: &mut [u8]) -> (r: Result<(), super::error::Unspecified>) { unimplemented!() }
        }
        }
    }
}
